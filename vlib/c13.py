"""C13 - pointer heap and timer queue are correct priority queues with stable
handles.

Runtime monitoring: harness/c13_heap.c runs random operation histories against
the REAL datastruct/ptrheap.c and timerqueue.c (ASan+UBSan).  Heap oracle: the
model is the list of live elements with their keys; pos[e] is written only by
the record-cookie callback; after EVERY operation the hook
`ptrheap_verif_peek` walks positions 0..n-1: each holds a distinct live
element whose last reported position is that position (so peek(pos[e]) == e
for every live e and the positions are a permutation of 0..n-1), parent <=
child, peek(n) == NULL, and `ptrheap_getmin` is a live element whose key is
the model minimum.  delete/increase/decrease are called with pos[e]; the model
then acts on e.  At the end the heap is drained: keys come out sorted and equal
to the model.  Every heap history is run in one of the eight
combinations {position callback present / absent} x {user cookie non-NULL /
NULL} x {ptrheap_init / ptrheap_create}; both callbacks must be handed exactly
the cookie given at construction (NULL included: a callback that stores the
position inside the element never looks at it, which is what timerqueue.c's own
callback does).  The array given to ptrheap_create is overwritten and freed as
soon as the call returns.  "Tiny" histories keep the heap at 0..4 elements:
handle operations on the only element, deletion of the last slot, deletemin
down to the empty heap, getmin on the empty heap, refill.  Timer queue oracle: list of live (time, pointer, cookie)
entries; `getptr(t)` must return the stored pointer of a live entry whose time
equals the least live time iff that time <= t, else NULL; `getmin` equals the
least live time; cookies are used long after they were issued.

This module draws history parameters, runs the driver and collects results.
"""
import random
import re

from . import core

SRCS = ['datastruct/ptrheap.c', 'datastruct/timerqueue.c',
        'datastruct/elasticarray.c']
WRAPS = ('malloc', 'calloc', 'realloc', 'free', 'strdup')
BATCH = 250


def build(ctx):
    objs = ctx.builder.lib('asan', SRCS)
    return ctx.builder.driver('c13', 'asan',
                              ['c13_heap.c', 'common/wrapalloc.c'], objs,
                              wraps=WRAPS, libs=(), defs=('VH_WRAPALLOC',))


def gen_cases(seed, tier, shard):
    rnd = random.Random(seed)
    scale = 1 if tier == 'quick' else 80
    cases = []

    def add(kind, line):
        cases.append({'kind': kind, 'line': line, 'expect': 'ok', 'nt': False})

    for _ in range(120 * scale):
        cls = rnd.random()
        tiny = 0
        if cls < 0.12:
            # heap hovering between empty and 4 elements
            tiny = 1
            ncreate = rnd.choice([-1, -1, 0, 1, 1, 2, 3, 4])
            nops = rnd.randrange(100, 600)
        elif cls < 0.55:
            ncreate = rnd.choice([-1, -1, 0, 1, 2, 3, 4, 5, 7, 8, 15, 16, 17, 31, 40, 64])
            nops = rnd.randrange(200, 1500)
        elif cls < 0.85:
            ncreate = rnd.randrange(65, 700)
            nops = rnd.randrange(200, 1000)
        else:
            ncreate = rnd.choice([rnd.randrange(700, 3001), 3000, 2047, 2048])
            nops = rnd.randrange(100, 400)
        if not tiny and rnd.random() < 0.12:
            ncreate = -1
        cb = 0 if rnd.random() < 0.2 else 1
        # user cookie: NULL in 55% of the histories (so NULL cookie + position
        # callback is about 44% of all heap histories)
        ck = 0 if rnd.random() < 0.55 else 1
        add('heap', 'H %d %d %d %d %d %d %d' % (rnd.getrandbits(62), nops,
                                                rnd.randrange(4), ncreate, cb, ck, tiny))
    for _ in range(70 * scale):
        prefill = rnd.choice([0, 0, 1, 5, 50, 50, 500, 3000])
        nops = rnd.randrange(200, 1500) if prefill < 3000 else rnd.randrange(200, 400)
        add('timer', 'T %d %d %d %d' % (rnd.getrandbits(62), nops,
                                        rnd.randrange(5), prefill))
    rnd.shuffle(cases)
    return cases


_KV = re.compile(r'(\w+)=(\w+)')


def make_judge(stats):
    def judge(c, ans):
        if ans.startswith('FAIL '):
            parts = ans.split(' ', 2)
            return ('oracle:' + parts[1], parts[2] if len(parts) > 2 else '')
        if not ans.startswith('ok '):
            return ('oracle:protocol', 'unparsable answer %r' % ans[:200])
        kv = dict(_KV.findall(ans))
        c['sig'] = c['line'][0] + kv.get('sig', '')
        c['nt'] = kv.get('nt') == '1'
        stats['histories_' + c['kind']] = stats.get('histories_' + c['kind'], 0) + 1
        for k, v in kv.items():
            if k in ('sig', 'nt'):
                continue
            try:
                iv = int(v)
            except ValueError:
                continue
            if k.endswith('_maxsize'):
                stats[k] = max(stats.get(k, 0), iv)
            elif k == 'heap_created':
                stats['heap_created_elements'] = stats.get('heap_created_elements', 0) + iv
                stats['heap_created_max'] = max(stats.get('heap_created_max', 0), iv)
            else:
                stats[k] = stats.get(k, 0) + iv
        return None
    return judge


def _merge_max(ctx, results):
    mx = {}
    for r in results:
        st = r.get('stats', {})
        for k in list(st):
            if '_max' in k:
                mx[k] = max(mx.get(k, 0), st.pop(k))
    core.merge(ctx, results)
    for k, v in mx.items():
        ctx.cov[k] = max(ctx.cov.get(k, 0), v)


def _shard(a):
    exe, seed, tier, i = a
    cases = gen_cases(seed, tier, i)
    st = {}
    r = {'evals': 0, 'sigs': set(), 'alarms': [], 'stats': st}
    # Batches keep one driver invocation short, so that the watchdog only
    # fires on a real hang and not on a busy machine.
    for k in range(0, len(cases), BATCH):
        b = core.line_shard(exe, cases[k:k + BATCH], judge=make_judge(st),
                            timeout=1800)
        r['evals'] += b['evals']
        r['sigs'] |= b['sigs']
        r['alarms'] += b['alarms']
    r['samples'] = [c['line'] for c in cases[:1]]
    return r


def run(ctx):
    exe = build(ctx)
    n = core.NCPU
    seeds = core.shard_seeds(ctx.seed, 'C13', n)
    res = core.pmap(_shard, [(exe, seeds[i], ctx.tier, i) for i in range(n)])
    _merge_max(ctx, res)
    for r in res[:5]:
        for s in r['samples']:
            ctx.add_sample(s)
    cov = ctx.cov
    need = ['heap_delete_sift_up', 'heap_delete_sift_down', 'heap_delete_last',
            'heap_increase', 'heap_decrease', 'heap_increasemin', 'heap_drained',
            'heap_created_elements', 'heap_callbacks',
            'heap_hist_callback_cookie_init', 'heap_hist_callback_cookie_create',
            'heap_hist_callback_nullcookie_init', 'heap_hist_callback_nullcookie_create',
            'heap_hist_nocallback_cookie_init', 'heap_hist_nocallback_cookie_create',
            'heap_hist_nocallback_nullcookie_init', 'heap_hist_nocallback_nullcookie_create',
            'heap_hist_tiny', 'heap_single_element_handle_ops',
            'heap_single_element_deleted_by_handle', 'heap_became_empty',
            'heap_empty_getmin_null', 'heap_refilled_after_empty',
            'heap_create_array_elems_scribbled_and_freed', 'tq_released',
            'tq_refused_not_due', 'tq_released_among_ties', 'tq_old_cookie_used',
            'tq_increase', 'tq_delete']
    if not ctx.violations:
        missing = [k for k in need if cov.get(k, 0) == 0]
        if missing:
            ctx.note_inconclusive('monitors never observed: ' + ', '.join(missing))
        nh = cov.get('histories_heap', 0)
        nc = cov.get('heap_hist_callback_nullcookie_init', 0) + \
            cov.get('heap_hist_callback_nullcookie_create', 0)
        cov['heap_histories_with_callback_and_null_cookie'] = nc
        if nh and nc * 4 < nh:
            ctx.note_inconclusive('position callback with a NULL user cookie in only %d of %d heap '
                                  'histories' % (nc, nh))
    cov['rule'] = (
        'case = one random history (line = kind, seed, operations, key/time mode, initial size[, callback, cookie, '
        'tiny]); '
        'heap: ptrheap_init or ptrheap_create from 0..3000 elements, then 100..1500 operations mixing add, getmin, '
        'deletemin, increasemin, delete/increase/decrease by reported position (last, root, middle, random element), '
        'keys from 0..3, 0..15, 0..999 or all of int64 (with INT64_MIN/MAX), comparison results of varying magnitude, '
        'growth/drain phases, full invariant walk after every operation, final drain; every history runs in one of the '
        '8 combinations {position callback present (80%) / absent (20%: handle operations not used)} x {user cookie '
        'non-NULL (45%) / NULL (55%)} x {ptrheap_init / ptrheap_create} (counters heap_hist_*; callback + NULL cookie '
        'must be >= 25% of the heap histories), and both callbacks must receive exactly the construction cookie; the '
        'array passed to ptrheap_create is overwritten with junk and freed right after the call (the heap must have '
        'copied it; ASan would report a later access); 12% "tiny" histories keep the heap at 0..4 elements: '
        'increase/decrease/delete by handle on the only element, delete of the last slot, deletemin down to empty, '
        'getmin == NULL on the empty heap, refill (ptrheap_deletemin on an empty heap is excluded by its documentation '
        'and never called); '
        'timer queue: 0..3000 prefilled entries then 200..1500 operations (add, delete and increase by cookie with a '
        'preference for the oldest cookies, release loops under a non-decreasing clock placed at/just below the '
        'minimum, arbitrary single queries), times all equal / equal seconds / few values / wide; '
        'non-trivial = heap with callback: >=1 interior deletion that sifted up and >=1 that sifted down; heap '
        'without callback: >=10 deletemin; tiny heap: became empty and was refilled at least once (with callback: '
        'and >=1 handle operation on the only element); timer: >=1 release, >=1 refusal with a non-empty queue, >=1 increase and '
        '>=1 delete; distinct = distinct FNV signature of the executed operation sequence')
    cov['sanitizers'] = 'gcc -fsanitize=address,undefined'
    ctx.assumptions += [
        'the hook ptrheap_verif_peek (LIBCPERCIVA_VERIF) returns the element at a heap position',
        'increase/decrease by 0 (key unchanged) is treated as a legal call',
        'a NULL user cookie is legal for ptrheap_init/ptrheap_create whether or not a position callback is given '
        '(the cookie is opaque to the heap; tests/heap itself passes NULL)',
        'the caller may modify or free the array passed to ptrheap_create as soon as the call has returned',
        'histories are random samples; heap sizes up to about 3400, timer queues up to about 3500 entries',
    ]


def replay(ctx, case):
    exe = build(ctx)
    st = {}
    c = dict(case)
    c.setdefault('kind', 'case')
    r = core.line_shard(exe, [c], judge=make_judge(st))
    r['stats'] = st
    core.merge(ctx, [r])

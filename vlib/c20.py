"""C20 - key material is wiped.

Runtime monitoring of the REAL objects (alg/sha256.c, sha1.c, md5.c,
crypto_aes*.c, crypto_aesctr*.c, crypto_dh.c, aws_readkeys.c) in the builds
plain (-O2), asan (-O1 + ASan/UBSan) and, thorough only, lto (-O2 -flto), each
in four AES environments (ENVS below): compiled with CPUSUPPORT_X86_AESNI and
the CPU has it; compiled without; compiled with it but the run-time detector
answers "absent" (harness/c20_detect_stub.c replaces
cpusupport/cpusupport_x86_aesni.c, as C03 does); compiled with it, CPU has it,
but the library's AES-NI self-test fails at start-up (--aesni-selftest-fails).
The last two are the run-time fallbacks inside a hardware-capable binary: the
key is an OpenSSL AES_KEY although HWACCEL is defined.  aws_readkeys
additionally runs under stdio fault injection (--wrap=fopen,fgets,ferror,
fclose: failing fopen, read error at every fgets position, fclose that closes
and then reports an error), judged against aws_model().

 (a) after SHA256/SHA1/MD5_Final and HMAC_*_Final every byte of the context
     object (pre-filled with 0xA5; placed at every legal alignment - 0/8 resp.
     0/4/8/12 bytes past a 16-byte boundary - at the end of an exact-size heap
     block and in a stack frame) is read back and must be 0;
 (a') the primitive itself: insecure_memzero(p + off, len) for every len
     0..130 (thorough 0..600) and off 0..15 on heap and stack buffers
     pre-filled with a non-zero byte: exactly [off, off+len) must be zero;
 (b) a free-time hook (wrapalloc under malloc/calloc/realloc/free/strdup,
     CRYPTO_set_mem_functions under OpenSSL) searches every block the library
     hands back for >= 16-byte windows (>= 8 for AES key bytes and text) of the secret byte images
     of the current case: raw AES key, all round keys (independent FIPS-197
     schedule, byte and 32-bit-word-swapped layouts; 8-byte windows; every
     key case runs with the library's blocks 16-byte aligned and again with
     blocks that are 8 mod 16), AES-CTR keystream blocks
     (independent CTR model), bignum images of x, x+k*2^256, x+2^258, r,
     r+2^256, (x+2^258)-(r+2^256), and the secret text of failing key files.
     "Secret bytes absent", not "block all zero".
 (c) fault enumeration of the DH error paths: for each (x, r, peer) triple the
     driver counts the N allocations OpenSSL makes during crypto_dh_generate_pub
     / crypto_dh_compute / crypto_dh_generate (after a warm-up, so that
     per-process allocations are not counted) and then repeats the operation
     N times with the k-th OpenSSL allocation refused, k = 1..N, the scan of
     (b) active: the call must return -1 (or 0 when OpenSSL copes) without
     crashing and no block released may hold an image of x, r or their sums.
Self-checks on every case: the live AES key / stream object DOES contain the
patterns just before it is freed, and an unwiped control block freed by the
driver (BN_bin2bn + BN_free for DH) IS reported by the hook.
"""
import errno
import hashlib
import hmac
import os
import random
import zlib

from . import core
from .c01 import partition, pstr, rbytes

SRCS = ['alg/sha256.c', 'alg/sha256_shani.c', 'alg/sha256_sse2.c',
        'alg/sha1.c', 'alg/md5.c',
        'cpusupport/cpusupport_x86_shani.c', 'cpusupport/cpusupport_x86_sse2.c',
        'cpusupport/cpusupport_x86_ssse3.c', 'cpusupport/cpusupport_x86_aesni.c',
        'crypto/crypto_aes.c', 'crypto/crypto_aes_aesni.c',
        'crypto/crypto_aesctr.c', 'crypto/crypto_aesctr_aesni.c',
        'crypto/crypto_dh.c', 'crypto/crypto_dh_group14.c',
        'aws/aws_readkeys.c', 'util/insecure_memzero.c', 'util/warnp.c']
DRV = ['c20_wipe.c', 'c20_detect_stub.c', 'common/wrapalloc.c', 'common/wa_openssl.c',
       'common/refaes.c']
WRAPS = ('malloc', 'calloc', 'realloc', 'free', 'strdup',
         # stdio fault injection around aws_readkeys (pass-through otherwise)
         'fopen', 'fgets', 'ferror', 'fclose')
NO_AESNI = [c for c in core.ALL_CPU if c != 'X86_AESNI']
DETECTOR = 'cpusupport/cpusupport_x86_aesni.c'
# The AES code in four environments:
#  aesni  - compiled with CPUSUPPORT_X86_AESNI, real detector (this host: present)
#  soft   - compiled without CPUSUPPORT_X86_AESNI
#  absent - the objects of `aesni`, but harness/c20_detect_stub.c is linked in
#           place of cpusupport/cpusupport_x86_aesni.c and answers "no AES-NI"
#  stfail - the executable of `aesni` started with --aesni-selftest-fails: the
#           library's start-up self-test of the AES-NI code fails (its
#           allocation is refused), so it falls back to OpenSSL at run time
ENVS = ('aesni', 'soft', 'absent', 'stfail')
ENV_ARGS = {'stfail': ('--aesni-selftest-fails',)}
ENV_TEXT = {'aesni': '', 'soft': ' (without CPUSUPPORT_X86_AESNI)',
            'absent': ' (with CPUSUPPORT_X86_AESNI; substituted detector cpusupport_x86_aesni_detect_1 '
                      'answers "absent")',
            'stfail': ' (with CPUSUPPORT_X86_AESNI, CPU has it; the library\'s AES-NI self-test is made '
                      'to fail at start-up: run-time fallback to OpenSSL)'}

ALGS = ['sha256', 'sha1', 'md5']
HL = {'sha256': hashlib.sha256, 'sha1': hashlib.sha1, 'md5': hashlib.md5}

# RFC 3526 group 14 (only used to make plausible public values).
P14 = int(
    'FFFFFFFFFFFFFFFFC90FDAA22168C234C4C6628B80DC1CD129024E088A67CC74'
    '020BBEA63B139B22514A08798E3404DDEF9519B3CD3A431B302B0A6DF25F1437'
    '4FE1356D6D51C245E485B576625E7EC6F44C42E9A637ED6B0BFF5CB6F406B7ED'
    'EE386BFB5A899FA5AE9F24117C4B1FE649286651ECE45B3DC2007CB8A163BF05'
    '98DA48361C55D39A69163FA8FD24CF5F83655D23DCA3AD961C62F356208552BB'
    '9ED529077096966D670C354E4ABC9804F1746C08CA18217C32905E462E36CE3B'
    'E39E772C180E86039B2783A2EC07A28FB5C55DF06F4C52C9DE2BCBF695581718'
    '3995497CEA956AE515D2261898FA051015728E5A8AACAA68FFFFFFFFFFFFFFFF', 16)


def sig(*a):
    return zlib.crc32(repr(a).encode())


def builds_for(tier):
    cfgs = ['plain', 'asan'] + (['lto'] if tier == 'thorough' else [])
    return [(cfg, cpu) for cfg in cfgs for cpu in ENVS]


def bname(cfg, cpu):
    return '%s-%s' % (cfg, cpu)


# ---------------------------------------------------------------------------
# Case generation
# ---------------------------------------------------------------------------

def lenclass(n):
    return (min(n // 16, 5), n % 16 == 0)


# Legal placements of a context object relative to a 16-byte boundary: the
# multiples of its alignment (SHA256_CTX holds a uint64_t; the others only
# uint32_t).  The driver verifies this with _Alignof.
OFFS = {'sha256': [0, 8], 'sha1': [0, 4, 8, 12], 'md5': [0, 4, 8, 12]}


def gen_ctx(rnd, tier, shard, nshards, add):
    top = 300 if tier == 'quick' else 600
    klens = [0, 1, 20, 32, 63, 64, 65, 100, 128, 200]
    rounds = 1 if tier == 'quick' else 5
    turn = {}

    def place(alg, l, hm):
        # every (type, heap/stack) pair walks through its legal offsets
        k = (alg, l, hm)
        turn[k] = turn.get(k, shard) + 1
        return '%s%d' % (l, OFFS[alg][turn[k] % len(OFFS[alg])])

    for n in list(range(0, top + 1)) * rounds:
        if n % nshards != shard:
            continue
        for alg in ALGS:
            for l in 'hs':
                loc = place(alg, l, 0)
                m = rbytes(rnd, n)
                style = rnd.choice(['one', 'bytes', 'rand', 'rand', 'empty-ends'])
                p = partition(rnd, n, style) if n or rnd.random() < 0.5 else []
                reps = rnd.choice([1, 1, 1, 2, 3])
                add('ctx', 'hash-' + alg,
                    'H %s %s %d %s %s' % (alg, loc, reps, core.hx(m), pstr(p)),
                    HL[alg](m).hexdigest(),
                    sig('H', alg, loc, n, len(p), reps), True, alg=alg)
                loc = place(alg, l, 1)
                kl = rnd.choice(klens + [rnd.randrange(0, 300)])
                k = rbytes(rnd, kl)
                m = rbytes(rnd, n)
                p = partition(rnd, n, rnd.choice(['one', 'rand', 'rand', 'empty-ends'])) \
                    if n or rnd.random() < 0.5 else []
                reps = rnd.choice([1, 1, 1, 2, 3])
                add('ctx', 'hmac-' + alg,
                    'M %s %s %d %s %s %s' % (alg, loc, reps, core.hx(k), core.hx(m), pstr(p)),
                    hmac.new(k, m, HL[alg]).hexdigest(),
                    sig('M', alg, loc, n, kl > 64, len(p), reps), True, alg='hmac-' + alg)
    extra = 6 if tier == 'quick' else 150
    for _ in range(extra):
        alg = rnd.choice(ALGS)
        loc = '%s%d' % (rnd.choice('hs'), rnd.choice(OFFS[alg]))
        n = rnd.choice([rnd.randrange(0, 3000), rnd.randrange(0, 40000)])
        m = rbytes(rnd, n)
        p = partition(rnd, n, 'rand')
        if rnd.random() < 0.5:
            add('ctx', 'hash-' + alg, 'H %s %s 1 %s %s' % (alg, loc, core.hx(m), pstr(p)),
                HL[alg](m).hexdigest(), sig('H', alg, loc, n, len(p), 1), True, alg=alg)
        else:
            kl = rnd.choice([rnd.randrange(0, 65), rnd.randrange(65, 2000)])
            k = rbytes(rnd, kl)
            add('ctx', 'hmac-' + alg,
                'M %s %s 1 %s %s %s' % (alg, loc, core.hx(k), core.hx(m), pstr(p)),
                hmac.new(k, m, HL[alg]).hexdigest(),
                sig('M', alg, loc, n, kl > 64, len(p), 1), True, alg='hmac-' + alg)


SPECIAL_KEYS = [
    bytes(16), bytes(32), b'\xff' * 16, b'\xff' * 32,
    bytes(range(16)), bytes(range(32)),
    bytes.fromhex('2b7e151628aed2a6abf7158809cf4f3c'),
    bytes.fromhex('603deb1015ca71be2b73aef0857d77811f352c073b6108d72d9810a30914dff4'),
]


def rkey(rnd):
    r = rnd.random()
    if r < 0.06:
        return rnd.choice(SPECIAL_KEYS)
    kl = rnd.choice([16, 32])
    k = rbytes(rnd, kl)
    if r < 0.10 and kl == 32:
        k = k[:16] + k[:16]          # equal halves
    return k


def gen_zero(rnd, tier, shard, add):
    """Direct monitor of insecure_memzero: one line sweeps every length
    0..maxlen x offset 0..15 x {heap with slack, exact heap, stack}."""
    maxlen = 130 if tier == 'quick' else 600
    fills = [0xA5] + [rnd.randrange(1, 256) for _ in range(1 if tier == 'quick' else 3)]
    if shard % 3 == 1:
        fills.append(0xFF)
    if shard % 3 == 2:
        fills.append(0x01)
    for f in fills:
        add('zero', 'memzero', 'Z %d %02x' % (maxlen, f), '', sig('Z', maxlen, f), True)


def gen_aes(rnd, n, add):
    for i in range(n):
        k = rkey(rnd)
        nb = rnd.choice([0, 1, 1, 2, 5])
        # the same key with 16-byte-aligned blocks and with blocks 8 mod 16
        for mode in ('', ' m'):
            add('aes', 'aes-key' + ('-misaligned' if mode else ''),
                'K %s %d%s' % (k.hex(), nb, mode), '',
                sig('K', len(k), nb, mode, i if k not in SPECIAL_KEYS else k), True)


def gen_script(rnd, two, big):
    ops, shape = [], []
    live = inited = False
    lens = [0, 1, 5, 15, 16, 17, 31, 32, 33, 48, 64, 100]

    def nonce():
        return rnd.choice([0, 1, (1 << 64) - 1, rnd.getrandbits(64), rnd.getrandbits(64)])

    for _ in range(rnd.randrange(2, 14)):
        if not live:
            if rnd.random() < 0.6:
                ops.append('i:%x' % nonce())
                shape.append('i')
                inited = True
            else:
                ops.append('a')
                if rnd.random() < 0.12:
                    # allocated, never initialised, freed
                    ops.append('f')
                    shape.append('af')
                    continue
                k = rnd.randrange(1, 3 if two else 2)
                ops.append('r:%d:%x' % (k, nonce()))
                shape.append('a%d' % k)
                inited = True
            live = True
            continue
        r = rnd.random()
        if r < 0.65:
            n = rnd.choice(lens + [rnd.randrange(1, 300)] * 3 +
                           [rnd.randrange(1, big)])
            ops.append('s:%d' % n)
            shape.append(('s',) + lenclass(n))
        elif r < 0.85:
            k = rnd.randrange(0, 3 if two else 2)
            ops.append('r:%d:%x' % (k, nonce()))
            shape.append('r%d' % k)
        else:
            ops.append('f')
            shape.append('f')
            live = False
    return ','.join(ops), tuple(shape)


def gen_ctr(rnd, n, tier, add):
    big = 3000 if tier == 'quick' else 40000
    for _ in range(n):
        k1 = rkey(rnd)
        two = rnd.random() < 0.5
        k2 = rkey(rnd) if two else None
        script, shape = gen_script(rnd, two, big)
        mode = rnd.choice(['', ' m'])
        add('ctr', 'aes-ctr' + ('-misaligned' if mode else ''),
            'S %s %s %s%s' % (k1.hex(), k2.hex() if k2 else '-', script, mode),
            '', sig('S', len(k1), len(k2) if k2 else 0, shape, mode), True)


def images(v):
    """Byte images of a non-negative integer: little-endian 64-bit words
    (OpenSSL BN_ULONG array on this host) and big-endian bytes."""
    nb = max(1, (v.bit_length() + 7) // 8)
    nw = max(1, (v.bit_length() + 63) // 64)
    return [v.to_bytes(8 * nw, 'little'), v.to_bytes(nb, 'big')]


def special256(rnd):
    r = rnd.random()
    if r < 0.70:
        return rnd.getrandbits(256)
    if r < 0.78:
        return rnd.getrandbits(256) | (1 << 255)
    if r < 0.84:
        return rnd.getrandbits(rnd.choice([64, 128, 192, 200]))
    if r < 0.90:      # long carry chains when 2^256 multiples are added
        return (1 << 256) - 1 - rnd.getrandbits(rnd.choice([8, 64, 130]))
    if r < 0.95:
        return rnd.getrandbits(128) << 128
    return rnd.choice([0, 1, (1 << 256) - 1])


def dh_patterns(x, r):
    """(names, images) for everything blinded_modexp forms from x and r."""
    names, imgs = [], []
    vals = []
    if x is not None:
        vals += [('x', x), ('x+2^256', x + (1 << 256)), ('x+2*2^256', x + (2 << 256)),
                 ('x+3*2^256', x + (3 << 256)), ('x+2^258', x + (1 << 258))]
    if r is not None:
        vals += [('r', r), ('r+2^256', r + (1 << 256))]
    if x is not None and r is not None:
        vals += [('(x+2^258)-(r+2^256)', x + (1 << 258) - r - (1 << 256))]
    for nm, v in vals:
        for kind, b in zip(('le64', 'be'), images(v)):
            if len(b) >= 16:
                names.append('%s:%s' % (nm, kind))
                imgs.append(b)
    return names, imgs


def gen_dh(rnd, n, add):
    for _ in range(n):
        op = rnd.choice('GGCCD')
        x = special256(rnd)
        r = special256(rnd)
        xb, rb = x.to_bytes(32, 'big'), r.to_bytes(32, 'big')
        f = rnd.random()
        if op == 'D':
            if f < 0.08:
                q, xk, rk = ['F'], None, None
            elif f < 0.16:
                q, xk, rk = [xb.hex(), 'F'], x, None
            elif f < 0.20:
                q, xk, rk = [xb.hex()], x, None
            else:
                q, xk, rk = [xb.hex(), rb.hex()], x, r
        else:
            if f < 0.08:
                q, xk, rk = ['F'], x, None
            elif f < 0.12:
                q, xk, rk = [], x, None
            else:
                q, xk, rk = [rb.hex()], x, r
        names, imgs = dh_patterns(xk, rk)
        qs = ','.join(q) if q else '-'
        ps = ','.join(b.hex() for b in imgs) if imgs else '-'
        if op == 'G':
            line = 'G %s %s %s' % (xb.hex(), qs, ps)
        elif op == 'C':
            c = rnd.random()
            if c < 0.5:
                pub = pow(2, rnd.getrandbits(256) + (1 << 258), P14)
            elif c < 0.9:
                pub = rnd.getrandbits(2048)
            else:
                pub = rnd.choice([2, P14 - 1, P14 + 1, 1])
            line = 'C %s %s %s %s' % (pub.to_bytes(256, 'big').hex(), xb.hex(), qs, ps)
        else:
            line = 'D %s %s' % (qs, ps)
        ok = rk is not None
        add('dh', 'dh-' + op, line, '0' if ok else '-1',
            sig(op, x.bit_length() // 32, r.bit_length() // 32, len(q), ok),
            xk is not None, pnames=names)


def peer_value(rnd):
    c = rnd.random()
    if c < 0.5:
        return pow(2, rnd.getrandbits(256) + (1 << 258), P14)
    if c < 0.9:
        return rnd.getrandbits(2048)
    return rnd.choice([2, P14 - 1, P14 + 1, 1])


FAULT_OPS = 'GCCGCD'


def gen_dhf(rnd, n, shard, add):
    """Fault enumeration cases: the driver refuses every OpenSSL allocation of
    the operation in turn.  The entropy queue never fails here."""
    for i in range(n):
        op = FAULT_OPS[(shard + i) % len(FAULT_OPS)]
        x = special256(rnd)
        r = special256(rnd)
        xb, rb = x.to_bytes(32, 'big'), r.to_bytes(32, 'big')
        names, imgs = dh_patterns(x, r)
        ps = ','.join(b.hex() for b in imgs) if imgs else '-'
        if op == 'G':
            line = 'F G %s %s %s' % (xb.hex(), rb.hex(), ps)
        elif op == 'C':
            pub = peer_value(rnd)
            line = 'F C %s %s %s %s' % (pub.to_bytes(256, 'big').hex(), xb.hex(), rb.hex(), ps)
        else:
            line = 'F D %s,%s %s' % (xb.hex(), rb.hex(), ps)
        add('dhf', 'dh-fault-' + op, line, '0',
            sig('F', op, x.bit_length() // 32, r.bit_length() // 32), True,
            pnames=names, op=op, xbits=x.bit_length(), rbits=r.bit_length())


B64 = 'ABCDEFGHIJKLMNOPQRSTUVWXYZabcdefghijklmnopqrstuvwxyz0123456789+/'


def rtext(rnd, n):
    return ''.join(rnd.choice(B64) for _ in range(n))


FOPEN_ERRNOS = [errno.ENOENT, errno.EACCES, errno.EMFILE, errno.ENFILE, errno.ENOMEM, errno.EINTR]
IO_ERRNOS = [errno.EIO, errno.ESTALE, errno.EINTR, errno.ENOSPC, errno.EDQUOT, errno.EBADF]
FAULT_TYPES = ['fc', 'fg', 'rd', 'fo']


def aws_model(lines, unterminated_last, failat, fault):
    """What aws_readkeys must do with this file under this fault ->
    (return value, a secret was read before the end).  Mirrors the control
    flow of the function (one fgets per line; the key file is shorter than
    libc's buffer, so it is read by the first fgets).  fault: None,
    ('fo',), ('fc',), ('fg', k), ('rd', k)."""
    ft = fault[0] if fault else None
    k = fault[1] if fault and len(fault) > 1 else 0
    if ft == 'fo':
        return (-1, False)
    have_id = have_sec = False
    nalloc = 0
    armed = False
    call = 0
    broke = False
    for idx, ln in enumerate(lines):
        call += 1
        if ft == 'fg' and k == call:
            return (-1, have_sec)
        if ft == 'rd' and k == call:
            if call == 1:
                return (-1, False)          # the very first read(2) fails
            armed = True
        if unterminated_last and idx == len(lines) - 1:
            if armed:
                return (-1, have_sec)       # libc looks for the rest of the line: EISDIR
            broke = True                    # "Missing EOL": break
            break
        if '=' not in ln:
            return (-1, have_sec)
        name = ln.split('=', 1)[0]
        if name == 'ACCESS_KEY_ID':
            if have_id:
                return (-1, have_sec)
            nalloc += 1
            if nalloc == failat:
                return (-1, have_sec)
            have_id = True
        elif name == 'ACCESS_KEY_SECRET':
            if have_sec:
                return (-1, have_sec)
            nalloc += 1
            if nalloc == failat:
                return (-1, have_sec)
            have_sec = True
        else:
            return (-1, have_sec)
    if not broke:
        call += 1                           # the fgets that meets the end of the file
        if ft == 'fg' and k == call:
            return (-1, have_sec)
        if ft == 'rd' and (armed or k == call):
            return (-1, have_sec)
    if ft == 'fc':
        return (-1, have_sec)
    if not (have_id and have_sec):
        return (-1, have_sec)
    return (0, have_sec)


AWS_KINDS = ['dup-secret', 'unknown-line', 'no-equals', 'missing-id', 'dup-id',
             'noeol-missing-id', 'strdup-fail', 'empty-line', 'success',
             'fail-before-secret', 'secret-then-eof-garbage', 'bare-cr']


def gen_aws(rnd, n, add):
    kinds = AWS_KINDS
    # the first cases of every shard are the cross product kind x fault type,
    # the rest is drawn at random (about half of them with a fault)
    plan = [(kd, ft) for ft in FAULT_TYPES for kd in kinds]
    for ci in range(n):
        if ci < len(plan):
            kind, ftype = plan[ci]
        else:
            kind = rnd.choice(kinds)
            ftype = rnd.choice([None] * 5 + ['fc', 'fc', 'fg', 'rd', 'fo'])
        sl = rnd.choice([8, 9, 16, 17, 40, 40, 40, rnd.randrange(8, 200), rnd.randrange(8, 990)])
        if rnd.random() < 0.05:
            sl = rnd.randrange(0, 8)           # too short to search for
        sec = rtext(rnd, sl)
        if rnd.random() < 0.1 and sl > 3:
            sec = sec[:sl // 2] + '=' + sec[sl // 2 + 1:]
        kid = 'AKIA' + rtext(rnd, rnd.randrange(0, 30))
        eol = rnd.choice(['\n', '\n', '\r\n'])
        sline = 'ACCESS_KEY_SECRET=' + sec
        iline = 'ACCESS_KEY_ID=' + kid
        secrets = [sec]
        failat = 0
        expect = -1
        after = True          # does the failure come after the secret was read
        if kind == 'dup-secret':
            sec2 = rtext(rnd, rnd.randrange(8, 60))
            secrets.append(sec2)
            lines = rnd.choice([[sline, 'ACCESS_KEY_SECRET=' + sec2],
                                [iline, sline, 'ACCESS_KEY_SECRET=' + sec2],
                                [sline, iline, 'ACCESS_KEY_SECRET=' + sec2],
                                [sline, sline]])
        elif kind == 'unknown-line':
            bad = rnd.choice(['FOO=bar', 'ACCESS_KEY_SECRET =x', 'access_key_id=' + kid,
                              ' ACCESS_KEY_ID=' + kid, '=', 'ACCESS_KEY=' + rtext(rnd, 12)])
            lines = rnd.choice([[sline, bad], [iline, sline, bad], [sline, bad, iline]])
        elif kind == 'no-equals':
            bad = rnd.choice(['ACCESS_KEY_ID', 'garbage', '#comment', 'ACCESS_KEY_ID ' + kid])
            lines = rnd.choice([[sline, bad], [iline, sline, bad], [sline, bad, iline]])
        elif kind == 'empty-line':
            lines = rnd.choice([[sline, '', iline], [iline, sline, '']])
        elif kind == 'missing-id':
            lines = [sline]
        elif kind == 'dup-id':
            lines = rnd.choice([[iline, sline, iline], [sline, iline, 'ACCESS_KEY_ID=x']])
        elif kind == 'noeol-missing-id':
            lines = [sline, 'ACCESS_KEY_ID=' + kid]     # last line unterminated
        elif kind == 'strdup-fail':
            lines = [sline, iline]
            failat = 2
        elif kind == 'secret-then-eof-garbage':
            lines = [sline, iline, rtext(rnd, 5)]       # unterminated junk: "Missing EOL" -> success
            expect = 0
            after = False
        elif kind == 'success':
            lines = rnd.choice([[sline, iline], [iline, sline]])
            expect = 0
            after = False
        elif kind == 'bare-cr':
            # two records in ONE physical line, separated by a bare CR: the line
            # ends at the CR, the rest of it is not a record (so a key is missing)
            first, second = rnd.choice([(iline, sline), (sline, iline)])
            lines = [first]
            barecr = first + '\r' + second
            after = first is sline
        else:   # fail-before-secret
            lines = rnd.choice([['junk', sline], [iline, iline, sline], ['X=y', sline, iline]])
            after = False
        unterminated = kind in ('noeol-missing-id', 'secret-then-eof-garbage')
        content = eol.join(lines)
        if not unterminated:
            content += eol
        if kind == 'bare-cr':
            content = barecr + eol
        # the model must reproduce the hand-written expectation of the fault-free kinds
        m_ret, m_sec = aws_model(lines, unterminated, failat, None)
        assert m_ret == expect and (m_ret == -1 and m_sec) == after, (kind, lines, m_ret, m_sec)
        fault, ftok, fsig = None, '-', None
        if ftype == 'fo':
            fault, ftok = ('fo',), 'fo:%d' % rnd.choice(FOPEN_ERRNOS)
            fsig = 'fo'
        elif ftype == 'fc':
            fault, ftok = ('fc',), 'fc:%d' % rnd.choice(IO_ERRNOS)
            fsig = 'fc'
        elif ftype in ('fg', 'rd'):
            # 1 .. the call that meets the end of the file (+1: never reached)
            k = rnd.randrange(1, len(lines) + 3)
            if rnd.random() < 0.4:
                k = len(lines) + (0 if unterminated else 1)
            fault = (ftype, k)
            ftok = 'fg:%d:%d' % (k, rnd.choice(IO_ERRNOS)) if ftype == 'fg' else 'rd:%d' % k
            fsig = (ftype, k - len(lines))
        if fault is not None:
            expect, m_sec = aws_model(lines, unterminated, failat, fault)
            after = expect == -1 and m_sec
        pats = [s.encode() for s in secrets if len(s) >= 8]
        # the key id must not happen to contain secret text
        assert all(s[i:i + 8] not in kid for s in secrets for i in range(max(0, len(s) - 7)))
        ps = ','.join(p.hex() for p in pats) if pats else '-'
        add('aws', 'aws-' + kind + ('+' + ftype if ftype else ''),
            'W %s %d %s %s' % (core.hx(content.encode()), failat, ps, ftok),
            str(expect), sig('W', kind, min(sl, 50), len(lines), eol, fsig),
            after and len(sec) >= 8, pnames=['secret'] + (['second-secret'] if len(pats) > 1 else []),
            fault=ftype, base=kind)


SIZES = {
    # total over all shards:   quick, thorough
    'aes': (1800, 100000),
    'ctr': (1800, 80000),
    'dh': (1500, 75000),
    'dhf': (48, 2400),         # each one is ~45-70 faulted runs of the operation
    'aws': (1800, 75000),
}


def gen_cases(seed, tier, shard, nshards):
    rnd = random.Random(seed)
    cases = []

    def add(group, kind, line, expect, s, nt, **meta):
        meta['group'] = group
        cases.append({'kind': kind, 'line': line, 'expect': expect, 'sig': s,
                      'nt': nt, 'meta': meta})

    def per(group):
        q, t = SIZES[group]
        tot = q if tier == 'quick' else t
        sc = float(os.environ.get('VERIF_SCALE', '1'))
        return max(1, int(tot * sc) // nshards)

    gen_ctx(rnd, tier, shard, nshards, add)
    gen_zero(rnd, tier, shard, add)
    gen_aes(rnd, per('aes'), add)
    gen_ctr(rnd, per('ctr'), tier, add)
    gen_dh(rnd, per('dh'), add)
    gen_dhf(rnd, per('dhf'), shard, add)
    gen_aws(rnd, per('aws'), add)
    return cases


# ---------------------------------------------------------------------------
# Judging
# ---------------------------------------------------------------------------

STATS = {}


def st(name, n=1):
    STATS[name] = STATS.get(name, 0) + n


def kv(ans):
    d = {}
    for t in ans.split():
        if '=' in t:
            k, v = t.split('=', 1)
            d[k] = v
    return d


def judge(c, ans):
    meta = c['meta']
    g = meta['group']
    b = meta.get('build', '?')
    if g == 'ctx':
        alg = meta['alg']
        t = ans.split()
        loc = c['line'].split()[2]
        where = '%s, %s bytes past a 16-byte boundary' % ('heap' if loc[0] == 'h' else 'stack', loc[1:] or '0')
        if t and t[0] == 'ok' and len(t) == 4:
            st('ctx.finalised.' + alg, int(t[1]))
            st('ctx.bytes_read_back', int(t[2]))
            st('ctx.heap' if loc[0] == 'h' else 'ctx.stack', int(t[1]))
            st('ctx.placed.%s.%s+%s' % (alg, 'heap' if loc[0] == 'h' else 'stack', loc[1:] or '0'), int(t[1]))
            if t[3] != c['expect']:
                st('harness.digest_mismatch')
            return None
        if t and t[0] == 'NZ':
            d = kv(ans)
            return ('wipe:ctx-nonzero:%s-final:%s' % (alg, b.split('-')[0]),
                    'build %s: after %s_Final the context (%s bytes, %s) still has %s '
                    'non-zero byte(s), first at offset %s (repetition %s on the same object)'
                    % (b, alg.upper().replace('-', '_'), d.get('size'), where,
                       d.get('cnt'), d.get('off'), d.get('rep')))
        st('harness.bad_answer')
        c['nt'] = False
        return None
    if g == 'zero':
        t = ans.split()
        d = kv(ans)
        if t and t[0] == 'ok':
            st('zero.calls', int(d.get('calls', 0)))
            st('zero.bytes_wiped', int(d.get('bytes', 0)))
            st('zero.sweeps')
            return None
        if t and t[0] == 'BAD':
            what = d.get('what')
            return ('wipe:memzero-%s:%s' % (what, b.split('-')[0]),
                    'build %s: insecure_memzero(p + %s, %s) on a %s buffer filled with 0x%s (p 16-byte aligned): '
                    '%s byte(s) %s, first at buffer index %s'
                    % (b, d.get('off'), d.get('len'), d.get('where'), c['line'].split()[2], d.get('cnt'),
                       'inside the range are not zero' if what == 'unwiped' else 'outside the range were modified',
                       d.get('idx')))
        st('harness.bad_answer')
        c['nt'] = False
        return None
    if ans.strip() == 'noossl':
        st('harness.openssl_refused_mem_functions')
        c['nt'] = False
        return None
    d = kv(ans)
    try:
        frees, nbytes = int(d['frees']), int(d['bytes'])
        wins, ctrl, hits = int(d['wins']), int(d['ctrl']), int(d['hits'])
        npats = int(d['pats'])
    except (KeyError, ValueError):
        st('harness.bad_answer')
        c['nt'] = False
        return None
    st(g + '.cases')
    st(g + '.frees_scanned', frees)
    st(g + '.bytes_scanned', nbytes)
    st(g + '.patterns', npats)
    st(g + '.windows', wins)
    st(g + '.windows_skipped_low_entropy', int(d.get('skipped', 0)))
    st(g + '.positive_control_hits', ctrl)
    if wins > 0 and ctrl == 0:
        st('harness.control_missed.' + g)
    if g in ('aes', 'ctr'):
        st('aes.impl_aesni' if d.get('impl') == '1' else 'aes.impl_openssl')
        env = b.split('-')[-1]
        if env == 'absent':
            # compiled with AES-NI, the substituted detector must have been asked and obeyed
            if d.get('impl') != '0' or int(d.get('det', -1)) < 1:
                st('harness.absent_build_did_not_fall_back')
            else:
                st('aes.env.detector_said_absent_openssl_key_used')
        elif env == 'stfail':
            if d.get('impl') != '0' or int(d.get('stf', -1)) < 1:
                st('harness.selftest_failure_not_injected')
            else:
                st('aes.env.selftest_failed_openssl_key_used')
        elif d.get('det') != '-1' or d.get('stf') != '-1':
            st('harness.unexpected_environment_flags')
        if d.get('enc') != '1':
            st('harness.aes_output_differs_from_reference')
        present = int(d.get('present', 0))
        mis = int(d.get('mis', 0))
        want_mis = c['line'].endswith(' m')
        if g == 'aes':
            st('aes.key_objects_8_mod_16' if mis else 'aes.key_objects_16_aligned')
            if mis and d.get('nr') == '14' and present:
                st('aes.key_objects_8_mod_16_with_256bit_key')
            if bool(mis) != want_mis:
                st('harness.aes_block_alignment_not_as_requested')
        else:
            st('ctr.objects_8_mod_16', mis)
            if want_mis and mis == 0:
                st('harness.ctr_block_alignment_not_as_requested')
        if g == 'ctr':
            st('ctr.stream_objects_freed', int(d.get('objs', 0)))
            st('ctr.freed.never_initialised', int(d.get('funinit', 0)))
            st('ctr.freed.initialised_unused', int(d.get('funused', 0)))
            st('ctr.freed.mid_block', int(d.get('fmid', 0)))
            st('ctr.freed.on_block_boundary', int(d.get('ffull', 0)))
            st('ctr.freed.after_init2_reuse', int(d.get('frekeyed', 0)))
            st('ctr.objects_caching_known_keystream_at_free', present)
            st('ctr.key_windows_present_before_free', int(d.get('presentkey', 0)))
        else:
            st('aes.key_windows_present_before_free', present)
        if present == 0:
            if g == 'aes' and wins > 0:
                st('harness.aes_patterns_not_in_live_key')
            c['nt'] = False
        else:
            st(g + '.cases_secret_present_before_free')
    elif g == 'dh':
        if d.get('ret') != c['expect']:
            st('harness.dh_unexpected_ret')
        st('dh.entropy_calls', int(d.get('ncalls', 0)))
        if wins == 0 or frees == 0:
            c['nt'] = False
    elif g == 'dhf':
        op = meta['op']
        try:
            n, n2, runs = int(d['n']), int(d['n2']), int(d['runs'])
            fired, notreached = int(d['fired']), int(d['notreached'])
            failret, absorbed = int(d['failret']), int(d['absorbed'])
            absdiff, badret = int(d['absdiff']), int(d['badret'])
        except (KeyError, ValueError):
            st('harness.bad_answer')
            c['nt'] = False
            return None
        if d.get('ret') != c['expect']:
            st('harness.dhf_unexpected_ret')
        if badret:
            st('harness.dhf_return_value_not_0_or_-1', badret)
        if n == 0 or runs != n:
            st('harness.dhf_no_allocations_counted')
        pre = 'dhf.%s.' % op
        st(pre + 'cases')
        st(pre + 'openssl_allocations_counted', n)
        st(pre + 'triples_with_N=%d' % n)
        st(pre + 'fault_runs', runs)
        st(pre + 'fault_points_fired', fired)
        st(pre + 'fault_not_reached', notreached)
        st(pre + 'returned_-1', failret)
        st(pre + 'absorbed_returned_0', absorbed)
        if absdiff:
            st(pre + 'absorbed_but_output_differs', absdiff)
        if n2 != n:
            st(pre + 'count_differs_in_second_clean_run')
        if wins == 0 or frees == 0 or fired == 0:
            c['nt'] = False
        c['sig'] = sig('F', op, n, meta['xbits'] // 32, meta['rbits'] // 32)
    elif g == 'aws':
        ft = meta.get('fault')
        fired = d.get('sf') == '1'
        if d.get('ret') != c['expect']:
            # includes: a stdio fault fired and aws_readkeys did not report failure
            st('harness.aws_unexpected_ret' + ('_under_fault_' + ft if ft else ''))
            c['nt'] = False
        if ft:
            st('aws.fault.%s.cases' % ft)
            if fired:
                st('aws.fault.%s.fired' % ft)
            if ft == 'rd' and d.get('sfnull') == '1':
                st('aws.fault.rd.libc_reported_read_error')
            if fired and d.get('ret') == '-1':
                st('aws.fault.%s.returned_-1' % ft)
            if ft in ('fo', 'fc') and not fired:
                st('harness.aws_fault_not_fired_' + ft)
            if ft == 'fo' and (frees or int(d.get('allocs', 0))):
                st('harness.aws_fopen_failed_but_allocations_seen')
        st('aws.fopen_calls', int(d.get('nfopen', 0)))
        st('aws.fgets_calls', int(d.get('nfgets', 0)))
        st('aws.fclose_calls', int(d.get('nfclose', 0)))
        if d.get('ret') == '-1':
            st('aws.failed_runs_live_blocks_checked')
            st('aws.blocks_left_behind', int(d.get('leftblocks', 0)))
        if d.get('ret') == '-1' and c['nt']:
            st('aws.failed_after_secret_read')
            if ft and fired:
                st('aws.fault.%s.failed_after_secret_read' % ft)
                if meta.get('base') in ('success', 'secret-then-eof-garbage'):
                    st('aws.fault.%s.well_formed_file_failed_after_secret_read' % ft)
            if frees == 0:
                st('harness.aws_no_free_seen')
                c['nt'] = False
        if wins == 0:
            c['nt'] = False
        left = int(d.get('left', 0))
        if left > 0 and hits == 0:
            return ('wipe:left-behind:aws-secret:%s' % b.split('-')[0],
                    'build %s, %s: aws_readkeys returned -1 and %d block(s) it allocated are still live and '
                    'hold secret text (neither wiped nor freed)' % (b, c['kind'], left))
    if hits > 0:
        cls = d.get('hcls', '?')
        what = cls
        names = meta.get('pnames')
        if names and cls in ('dh', 'text'):
            try:
                what = '%s image %s' % (cls, names[int(d['hpat'])])
            except (KeyError, ValueError, IndexError):
                pass
        kcls = {'text': 'aws-secret', 'dh': 'dh-secret'}.get(cls, cls)
        bb = b if g in ('aes', 'ctr') else b.split('-')[0]
        where = ''
        if g == 'aws' and meta.get('fault') and d.get('sf') == '1':
            ftok = c['line'].split()[-1]
            kcls += '-iofault'       # first leak seen on a path only an I/O error reaches
            where = {'fc': ' (fclose of the key file reported errno %s after closing it)',
                     'fg': ' (fgets call #%s reported a read error, errno %s)',
                     'rd': ' (read(2) under the stream failed with EISDIR from fgets call #%s on)',
                     'fo': ' (fopen failed, errno %s)'}[meta['fault']] % tuple(ftok.split(':')[1:])
        if g == 'dhf':
            hf = int(d.get('hfault', 0))
            if hf:
                # first leak seen on an error path (an OpenSSL allocation refused)
                kcls += '-errpath'
                where = (' in the run with OpenSSL allocation #%d of %s refused (returned on the error path); '
                         '%s of the %s fault runs freed secret bytes, fault indices %s..%s'
                         % (hf, d.get('n'), d.get('fruns'), d.get('runs'), d.get('fkfirst'), d.get('fklast')))
            else:
                where = ' in a run without faults'
        return ('wipe:free-leak:%s:%s' % (kcls, bb),
                'build %s, %s: %d freed block(s) still held secret bytes; first%s: block of %s '
                'bytes, offset %s: %s bytes equal to pattern #%s (%s) from its offset %s'
                % (b, c['kind'], hits, where, d.get('hblk'), d.get('hboff'), d.get('hlen'),
                   d.get('hpat'), what, d.get('hpoff')))
    return None


# ---------------------------------------------------------------------------
# Build / run
# ---------------------------------------------------------------------------

def build_one(a):
    """One compile-time configuration -> [(build name, exe, error)].  'hw'
    (compiled with CPUSUPPORT_X86_AESNI) yields three run-time environments
    from the same library objects: aesni (real detector), absent (detector
    replaced by harness/c20_detect_stub.c) and stfail (the aesni executable
    started with --aesni-selftest-fails)."""
    tmp, cfg, kind, envs = a
    d = os.path.join(tmp, 'b-%s-%s' % (cfg, kind))
    os.makedirs(d, exist_ok=True)
    bld = core.Builder(d)
    cpul = None if kind == 'hw' else NO_AESNI
    out = []
    try:
        objs = bld.lib(cfg, SRCS, cpu=cpul)
        if kind == 'soft':
            exe = bld.driver('c20', cfg, DRV, objs, wraps=WRAPS, cpu=cpul,
                             defs=('VH_WRAPALLOC',))
            out.append((bname(cfg, 'soft'), exe, None))
        else:
            if 'aesni' in envs or 'stfail' in envs:
                exe = bld.driver('c20', cfg, DRV, objs, wraps=WRAPS, cpu=cpul,
                                 defs=('VH_WRAPALLOC',))
                out += [(bname(cfg, e), exe, None) for e in ('aesni', 'stfail') if e in envs]
            if 'absent' in envs:
                # the same objects, minus the real detector
                nodet = [o for s_, o in zip(SRCS, objs) if s_ != DETECTOR]
                assert len(nodet) == len(objs) - 1
                exe = bld.driver('c20', cfg, DRV, nodet, wraps=WRAPS, cpu=cpul,
                                 defs=('VH_WRAPALLOC', 'C20_STUB_AESNI'))
                out.append((bname(cfg, 'absent'), exe, None))
    except core.Inconclusive as e:
        return [('%s-%s' % (cfg, kind), None, str(e))]
    return out


def build_all(ctx, which):
    jobs = {}
    for cfg, cpu in which:
        jobs.setdefault((cfg, 'soft' if cpu == 'soft' else 'hw'), []).append(cpu)
    res = core.tmap(build_one, [(ctx.tmp, cfg, kind, tuple(envs)) for (cfg, kind), envs in jobs.items()])
    exes = {}
    for lst in res:
        for name, exe, err in lst:
            if exe is None:
                raise core.Inconclusive('build %s failed: %s' % (name, err))
            exes[name] = exe
    return exes


def drv_args(build, scr):
    return (scr,) + ENV_ARGS.get(build.split('-')[-1], ())


def _shard(a):
    build, exe, seed, tier, i, n, tmp = a
    STATS.clear()
    cases = gen_cases(seed, tier, i, n)
    if not build.endswith('-aesni'):
        # only the AES paths differ between the AES environments
        cases = [c for c in cases if c['meta']['group'] in ('aes', 'ctr', 'zero')]
    for c in cases:
        c['meta']['build'] = build
    scr = os.path.join(tmp, 'scr-%s-%d' % (build, i))
    os.makedirs(scr, exist_ok=True)
    r = core.line_shard(exe, cases, judge=judge, args=drv_args(build, scr), timeout=1500)
    r['build'] = build
    r['mystats'] = dict(STATS)
    r['samples'] = []
    seen = set()
    for c in cases:
        g = c['meta']['group']
        if g not in seen and c.get('nt'):
            seen.add(g)
            r['samples'].append('%s: %s' % (build, c['line'][:150]))
    return r


REQUIRED = {
    # per full build: counters that must be > 0, else the monitor saw nothing
    'full': ['ctx.finalised.sha256', 'ctx.finalised.sha1', 'ctx.finalised.md5',
             'ctx.finalised.hmac-sha256', 'ctx.finalised.hmac-sha1',
             'ctx.finalised.hmac-md5', 'ctx.heap', 'ctx.stack',
             ] + ['ctx.placed.%s%s.%s+%d' % (h, a, w, o) for a in ALGS for h in ('', 'hmac-')
                  for w in ('heap', 'stack') for o in OFFS[a]] + [
             'dh.frees_scanned', 'dh.positive_control_hits',
             'dhf.frees_scanned', 'dhf.positive_control_hits',
             'dhf.G.fault_points_fired', 'dhf.C.fault_points_fired',
             'dhf.G.returned_-1', 'dhf.C.returned_-1',
             'aws.failed_after_secret_read', 'aws.positive_control_hits',
             'aws.failed_runs_live_blocks_checked',
             'aws.fault.fo.returned_-1', 'aws.fault.fc.failed_after_secret_read',
             'aws.fault.fc.well_formed_file_failed_after_secret_read',
             'aws.fault.fg.failed_after_secret_read', 'aws.fault.rd.failed_after_secret_read',
             'aws.fault.rd.libc_reported_read_error'],
    'absent': ['aes.env.detector_said_absent_openssl_key_used'],
    'stfail': ['aes.env.selftest_failed_openssl_key_used'],
    'aes': ['zero.calls', 'aes.key_objects_8_mod_16_with_256bit_key', 'aes.key_objects_16_aligned',
            'ctr.objects_8_mod_16', 'ctr.freed.never_initialised', 'ctr.freed.initialised_unused',
            'ctr.freed.mid_block', 'ctr.freed.on_block_boundary', 'ctr.freed.after_init2_reuse',
            'aes.frees_scanned', 'aes.positive_control_hits',
            'aes.cases_secret_present_before_free', 'ctr.frees_scanned',
            'ctr.cases_secret_present_before_free'],
}


def run(ctx):
    which = builds_for(ctx.tier)
    exes = build_all(ctx, which)
    nsh = 6 if ctx.quick() else core.NCPU
    seeds = core.shard_seeds(ctx.seed, 'C20', nsh)
    items = []
    for i in range(nsh):
        for cfg, cpu in which:
            b = bname(cfg, cpu)
            items.append((b, exes[b], seeds[i], ctx.tier, i, nsh, ctx.tmp))
    res = core.pmap(_shard, items)
    per = {}
    for r in res:
        d = per.setdefault(r['build'], {'lines_answered': 0})
        d['lines_answered'] += r['evals']
        for k, v in r['mystats'].items():
            d[k] = d.get(k, 0) + v
    core.merge(ctx, res)
    ctx.cov['builds'] = {b: dict(sorted(d.items())) for b, d in sorted(per.items())}
    for r in res[:2]:
        for s in r['samples'][:5 if r['build'].endswith('-aesni') else 1]:
            ctx.add_sample(s, limit=10)
    # a run that observed nothing must not pass
    for b, d in per.items():
        env = b.split('-')[-1]
        need = REQUIRED['aes'] + (REQUIRED['full'] if env == 'aesni' else REQUIRED.get(env, []))
        for k in need:
            if d.get(k, 0) <= 0:
                ctx.note_inconclusive('build %s: monitor counter %s is 0' % (b, k))
        for k, v in d.items():
            if k.startswith('harness.') and v:
                ctx.note_inconclusive('build %s: %s = %d' % (b, k, v))
    aesni = sum(d.get('aes.impl_aesni', 0) for b, d in per.items() if b.endswith('-aesni'))
    if aesni == 0:
        ctx.assumptions.append('this host did not select the AES-NI code: crypto_aes_aesni.c key_free was NOT exercised')
    for b, d in per.items():
        # every fallback environment must really have run on OpenSSL keys
        if not b.endswith('-aesni') and d.get('aes.impl_aesni', 0):
            ctx.note_inconclusive('build %s: %d cases ran on the AES-NI code' % (b, d['aes.impl_aesni']))
    ctx.cov['rule'] = (
        'cases: (a) hash/HMAC x {sha256,sha1,md5} x context on {end of an exact-size heap block, stack frame} x every legal '
        'placement (0/8 bytes past a 16-byte boundary for the SHA256 types, 0/4/8/12 for the SHA1 and MD5 types; the placements '
        'rotate over the lengths, counters ctx.placed.<type>.<where>+<offset>) x every message '
        'length 0..300 (thorough 0..600) + random up to 40000, random partitions incl. zero updates, 1-3 init/update*/final '
        'rounds on the same object, HMAC keys 0..2000 bytes (both sides of 64); (a\') insecure_memzero(p+off, len) for every len '
        '0..130 (thorough 0..600) x off 0..15 x {heap block with 16 spare bytes, exact heap block, stack array} x 2-5 fill bytes '
        'per shard: exactly [off, off+len) zero, all other bytes untouched; (b) AES keys 128/256 (random + FIPS vectors + '
        'constant keys) expand/encrypt/free, every key once with the library\'s blocks 16-byte aligned and once with blocks '
        'that are 8 mod 16 (wa_misalign), key bytes searched in 8-byte windows; AES-CTR object scripts (half of them with 8-mod-16 blocks; init | alloc+init2 | alloc then free without init2, stream lengths around 16-byte '
        'boundaries, init2 re-use with same/other/NULL key, free; counters ctr.freed.* give the state of the stream objects when freed: never initialised, initialised but unused, mid-block, on a block boundary, after init2 re-use); '
        'every AES key / AES-CTR / memzero case runs in FOUR environments per compiler configuration (builds_run): <cfg>-aesni (compiled with CPUSUPPORT_X86_AESNI, '
        'real detector: the AES-NI code), <cfg>-soft (compiled without it), <cfg>-absent (the SAME objects compiled with CPUSUPPORT_X86_AESNI, but '
        'harness/c20_detect_stub.c is linked in place of cpusupport/cpusupport_x86_aesni.c and cpusupport_x86_aesni_detect_1 answers "absent": '
        'run-time fallback to an OpenSSL AES_KEY inside a hardware-capable binary; counter aes.env.detector_said_absent_openssl_key_used) and '
        '<cfg>-stfail (the -aesni executable started with --aesni-selftest-fails: the allocation inside crypto_aes_key_expand_aesni is refused '
        'during the library\'s first crypto_aes_can_use_intrinsics(), the AES-NI self-test fails, the library prints "Disabling HW_X86_AESNI" '
        'and uses OpenSSL keys from then on; counter aes.env.selftest_failed_openssl_key_used); DH generate_pub/compute/generate with random and extreme '
        'x and r (0, 2^256-1, short, long carry chains), entropy failures; (c) DH fault enumeration: for every (x, r, peer) '
        'triple of group dhf (ops G=generate_pub, C=compute, D=generate in rotation, same value classes as above) the driver '
        'warms OpenSSL up (one clean and one failing run), counts the N allocations OpenSSL requests through '
        'CRYPTO_set_mem_functions in a clean run, then runs the operation once per k = 1..N with exactly the k-th request '
        'refused (NULL), free-time scan active, error queue cleared after each run, and counts again; every refused run must '
        'return -1 (0 if OpenSSL copes) and release no block holding an image of x, x+2^258, r, r+2^256, (x+2^258)-(r+2^256); '
        'counters dhf.<op>.* per build give cases, N summed, fault runs, fault points that fired, returns; key files failing after the secret line (duplicate '
        'secret, unknown line, no "=", empty line, missing id, duplicate id, no EOL, failed strdup of the id); '
        'stdio fault injection around aws_readkeys (-Wl,--wrap=fopen,fgets,ferror,fclose; every shard starts with the cross product '
        '11 file kinds (incl. the two well-formed ones) x 4 fault types, then about half of the random files carry a fault): fo = fopen returns NULL '
        '(ENOENT/EACCES/EMFILE/ENFILE/ENOMEM/EINTR), fc = the (only) fclose of the call really closes the stream and then returns EOF with errno '
        'EIO/ESTALE/EINTR/ENOSPC/EDQUOT/EBADF - on the main path of a well-formed file as well as on the error paths, fg = the k-th fgets returns NULL '
        'and ferror() answers 1 (k = 1 .. the call that meets end of file, and beyond), rd = the descriptor under the stream is replaced by a '
        'directory before the k-th fgets so that libc itself gets EISDIR from read(2) and sets the error indicator; the expected return value of '
        'every file x fault comes from a model of the function\'s control flow (aws_model; a mismatch is reported as harness.aws_unexpected_ret*, '
        'i.e. a fired fault that is not reported as -1 makes the run inconclusive); on every -1 the free-time scan must find no secret text in any freed block and '
        'the blocks allocated during the call that are still live are searched too (wipe:left-behind); counters aws.fault.<type>.{cases,fired,returned_-1,'
        'failed_after_secret_read,well_formed_file_failed_after_secret_read}, aws.fopen/fgets/fclose_calls. '
        'non-trivial: ctx - every case; AES/CTR - the live object held the searched bytes just before free; DH/aws - at least '
        'one searchable window and one block freed; dhf - additionally at least one fault point fired (signature includes N). distinct = distinct (kind, length classes, script shape) signatures; the '
        'same inputs are replayed on every build.')
    ctx.cov['dh_fault_enumeration'] = {
        b: {op: {'triples': d.get('dhf.%s.cases' % op, 0),
                 'openssl_allocations_counted': d.get('dhf.%s.openssl_allocations_counted' % op, 0),
                 'fault_runs': d.get('dhf.%s.fault_runs' % op, 0),
                 'fault_points_fired': d.get('dhf.%s.fault_points_fired' % op, 0),
                 'not_reached': d.get('dhf.%s.fault_not_reached' % op, 0),
                 'returned_-1': d.get('dhf.%s.returned_-1' % op, 0),
                 'absorbed_returned_0': d.get('dhf.%s.absorbed_returned_0' % op, 0),
                 'triples_by_N': {k.split('=')[1]: v for k, v in sorted(d.items())
                                  if k.startswith('dhf.%s.triples_with_N=' % op)}}
            for op in ('G', 'C', 'D')}
        for b, d in sorted(per.items()) if not b.endswith('-soft')}
    ctx.cov['builds_run'] = ['%s: gcc %s%s' % (bname(c, u), ' '.join(core.CFG_FLAGS[c]), ENV_TEXT[u])
                             for c, u in which]
    ctx.cov['aes_environments'] = {
        b: {'cases_on_aesni_code': d.get('aes.impl_aesni', 0),
            'cases_on_openssl_key': d.get('aes.impl_openssl', 0),
            'detector_said_absent': d.get('aes.env.detector_said_absent_openssl_key_used', 0),
            'selftest_failed': d.get('aes.env.selftest_failed_openssl_key_used', 0),
            'key_objects_holding_round_keys_before_free': d.get('aes.cases_secret_present_before_free', 0)}
        for b, d in sorted(per.items())}
    ctx.cov['aws_stdio_faults'] = {
        b: {ft: {k.split('.', 3)[3]: v for k, v in sorted(d.items()) if k.startswith('aws.fault.%s.' % ft)}
            for ft in FAULT_TYPES}
        for b, d in sorted(per.items()) if b.endswith('-aesni')}
    ctx.assumptions += [
        'runtime monitoring speaks only for the builds that ran (gcc, flags listed in builds_run); quick omits -flto',
        'contexts inside *_Buf helpers and PBKDF2_SHA256 live on the library\'s own stack and are not observable: not claimed',
        'only blocks the library (or OpenSSL on its behalf) passes to free/realloc are examined: the 1024-byte line buffer '
        'of aws_readkeys and blinding[] in blinded_modexp are stack arrays, and libc\'s stdio buffer of the key file is '
        'freed inside libc - none of them is claimed',
        'windows with fewer than 8 (AES key bytes and text: 4) distinct byte values are not searched (they would match wiped memory)',
        'context placements are relative to a 16-byte boundary and multiples of the type\'s alignment only (the driver checks _Alignof); '
        'the freed AES key / stream block is required to be free of key bytes (8-byte windows), not to be all zero; the 8-mod-16 '
        'allocator mode applies to the library\'s malloc/calloc/realloc/strdup during the AES cases only, OpenSSL\'s blocks are never shifted',
        'DH fault enumeration: one refused allocation per run (no double faults); the fault points are the allocations the '
        'installed OpenSSL makes for these inputs (N is counted per triple, histogram in dh_fault_enumeration), '
        'failures of OpenSSL operations that are not allocation failures are not injected; a refused realloc leaves the old '
        'block with OpenSSL; only the -aesni builds run the hash, DH and key-file groups (those sources do not depend on the AES environment)',
        'AES environments: "absent" and "stfail" are produced on a host that has AES-NI (substituted detector / refused allocation in the '
        'self-test); other causes of a failing self-test (wrong ciphertext) lead to the same library state (hwaccel == HW_SOFTWARE) and are '
        'not injected separately; ARM is not built',
        'aws_readkeys under stdio faults: one fault per call; the key id is freed unwiped by design and is not searched for; a return of 0 '
        'hands the strings to the caller and nothing is judged; the 1024-byte line buffer on the stack and libc\'s FILE buffer are not observable',
        'AES-CTR: a stream object caches a keystream block only after a partial block on the AES-NI path; '
        'ctr.objects_caching_known_keystream_at_free counts the objects for which the wipe was actually decidable',
    ]


def replay(ctx, case):
    build = case['meta']['build']
    cfg, cpu = build.split('-')
    exes = build_all(ctx, [(cfg, cpu)])
    c = dict(case)
    c.setdefault('nt', True)
    c.setdefault('sig', 0)
    STATS.clear()
    scr = os.path.join(ctx.tmp, 'scr-replay')
    os.makedirs(scr, exist_ok=True)
    r = core.line_shard(exes[build], [c], judge=judge, args=drv_args(build, scr), timeout=1500)
    core.merge(ctx, [r])

"""C18 - command-line parsing follows the documented option grammar for every
argv.

Oracle: a Python model written from the comment at the top of util/getopt.h
and the GETOPT_* macro documentation (not from getopt.c): packed short
options; the argument of an argument-taking option is the rest of the pack,
the text after '=' (long options), or the next element whatever it looks
like; '--' is consumed and ends option processing; a lone '-', the empty
string and the first operand end it without being consumed; an unregistered
option or an unwanted '=value' reaches GETOPT_DEFAULT; a missing argument
reaches GETOPT_MISSING_ARG if the table has one, else GETOPT_DEFAULT; no
abbreviations: '--foo' never means '--foobar'.  The trace compared is the
sequence of (label reached, optarg at GETOPT_OPTARG labels) and the final
optind.

Driver: fourteen tables compiled in through the real macros (harness/
c18_getopt.c).  The library indexes its option table by the source line of
each label relative to GETOPT_SWITCH, so the LAYOUT of a table is part of the
configuration: tables 0-5 have one statement block per label, tables 6-13 are
compact layouts which put labels into the boundary slots (slot 0 = the
GETOPT_SWITCH line, the line directly above GETOPT_DEFAULT, labels on
consecutive lines sharing a statement or falling through into the default
block, GETOPT_MISSING_ARG first / in the middle / last / absent, a table of
zero slots, one slot, 272 slots).  A block shared by several labels records
what a program can observe there: the string GETOPT returned, optarg and
optind.  The number of warning lines written to stderr is compared too.
Every vector is parsed after `optreset = 1` following another
vector (other table, possibly abandoned in the middle of a pack, its argv
freed), and a sample again as the first parse of a fresh process; both must
equal the model.

getopt(argc, argv) is given a COUNT: a vector is also run as the first argc
words of a longer array which holds other, non-NULL words at argv[argc],
argv[argc+1], ... and no NULL at all (a program parsing one piece of a longer
command line, or a hand-built vector).  The model is given exactly the counted
words; in particular an argument-taking option which is the last counted word
lacks its argument whatever sits behind it.  Further uses: argc == 0 with
argv[0] == NULL (or an uncounted word there), and the very same vector parsed
twice, with tables of different size, separated by optreset.
"""
import itertools
import random
import zlib

from . import core

SRCS = ['util/getopt.c']

# Must stay in step with harness/c18_getopt.c.
#   opts:    name -> takes an argument
#   missing: the table has a GETOPT_MISSING_ARG label
#   rich:    the GETOPT_DEFAULT block (and a separate GETOPT_MISSING_ARG block)
#            records (ch, optarg, optind) instead of just "?" / ":"
#   tail:    options whose label falls through into the GETOPT_DEFAULT block
#   mtail:   GETOPT_MISSING_ARG falls through into the GETOPT_DEFAULT block
#   layout:  where the labels are (slot = source line - line of GETOPT_SWITCH)
class Table(object):
    def __init__(self, opts, missing, rich=False, tail=(), mtail=False, layout=''):
        self.opts = opts
        self.missing = missing
        self.rich = rich
        self.tail = frozenset(tail)
        self.mtail = mtail
        self.layout = layout
        assert all(t in opts for t in self.tail)
        assert rich or not (self.tail or mtail)


TABLES = [
    Table({'-b': 0, '--bar': 0, '-f': 1, '--foo': 1}, False, layout='one block per label'),
    Table({'-a': 0, '-b': 0, '-c': 1, '--long': 0, '--arg': 1}, True,
          layout='one block per label, MISSING_ARG block last'),
    Table({'--foo': 1, '--foobar': 0, '--fo': 0, '--f': 1, '-o': 1, '-f': 0}, True,
          layout='one block per label, MISSING_ARG block last'),
    Table({'-x': 1, '-y': 1, '-z': 0, '-Z': 0, '--zed': 0}, False, layout='one block per label'),
    Table({'--key': 1, '--key-file': 1, '--k': 0, '-k': 0}, True,
          layout='one block per label, MISSING_ARG block first'),
    Table({}, False, layout='DEFAULT only (1 empty slot)'),
    # --- compact layouts -------------------------------------------------
    Table({'-a': 0, '--all': 0, '-n': 0, '-x': 1, '--xlong': 1}, False, rich=True,
          tail=('-x', '--xlong'),
          layout='slots 1,2 share a statement; 5; OPTARG labels in the last two slots (8,9 of 10) '
                 'fall into DEFAULT'),
    Table({'-o': 1, '--out': 1, '--help': 0, '-h': 0}, False, rich=True, tail=('--help', '-h'),
          layout='slots 1,2 share a statement; OPT labels in the last two slots fall into DEFAULT '
                 '(short one last: "-h falls into usage()")'),
    Table({'--num': 1, '-n': 1, '-V': 0, '--version': 0}, True, rich=True, tail=('-V', '--version'),
          layout='MISSING_ARG in slot 1; OPT labels in the last two slots fall into DEFAULT (long one last)'),
    Table({'-s': 1, '--size': 1, '-t': 0}, True, rich=True, tail=('--size',), mtail=True,
          layout='label in slot 0 (on the GETOPT_SWITCH line); OPTARG, MISSING_ARG in the last two '
                 'slots, both fall into DEFAULT'),
    Table({'-a': 0, '-m': 1, '--mid': 0, '--max': 1, '-z': 1, '--zz': 1}, False, rich=True,
          tail=('-z', '--zz'),
          layout='272 slots: labels in 1, 255+256 (shared statement), 259, and 270, 271 (fall into DEFAULT)'),
    Table({}, False, rich=True, layout='whole switch on one line: zero slots'),
    Table({'-x': 1}, False, rich=True, tail=('-x',),
          layout='one slot: OPTARG label in slot 0 = last slot, falls into DEFAULT'),
    Table({'-r': 0, '--in': 1, '-i': 1, '--raw': 0}, True, rich=True,
          layout='one line per label with its own statement: slot 1 empty, -r, MISSING_ARG, --in, -i, '
                 '--raw in the last slot'),
]


# Table 10 costs several times more per parse (272 longjmps to build the
# table): it is drawn less often by the random generators.
WEIGHTS = [1.0] * len(TABLES)
WEIGHTS[10] = 0.25
_CUM = list(itertools.accumulate(WEIGHTS))


def pick_table(rnd):
    x = rnd.random() * _CUM[-1]
    for i, c in enumerate(_CUM):
        if x < c:
            return i
    return len(_CUM) - 1


def sig(*a):
    return zlib.crc32(repr(a).encode())


# --------------------------------------------------------------------------
# The documented grammar
# --------------------------------------------------------------------------

def model(tid, args, limit=-1):
    """args: the arguments after argv[0].  -> (events, optind, flags)
    event = (kind, name, optarg|None, ch, optind) where kind is 'opt' (the
    label of the registered option `name` is reached), 'unknown', 'unwanted'
    (=value given to an option which takes none) or 'missing'; ch is the
    string GETOPT returns and optind its value when the label is reached."""
    T = TABLES[tid]
    opts = T.opts
    ev = []
    flags = set()
    i = 0
    n = len(args)

    def emit(kind, name, arg, ch, optind):
        ev.append((kind, name, arg, ch, optind))
        if kind != 'opt':
            flags.add(kind)
        elif name in T.tail:
            flags.add('tailopt')

    while i < n:
        a = args[i]
        if a == '--':
            i += 1
            flags.add('dashdash')
            break
        if a == '-' or not a.startswith('-'):
            flags.add('operand')
            break
        if a.startswith('--'):
            i += 1
            name, eq, val = a.partition('=')
            if name not in opts:
                emit('unknown', None, None, a, i + 1)
            elif opts[name]:
                if eq:
                    emit('opt', name, val, name, i + 1)
                    flags.add('eqarg')
                elif i < n:
                    flags.add('nextarg:' + ('opt' if args[i].startswith('-') else 'plain'))
                    i += 1
                    emit('opt', name, args[i - 1], name, i + 1)
                else:
                    emit('missing', name, None, name, i + 1)
            elif eq:
                emit('unwanted', name, None, name, i + 1)
            else:
                emit('opt', name, None, name, i + 1)
        else:
            pack = a[1:]
            i += 1
            if len(pack) > 1:
                flags.add('pack')
            j = 0
            while j < len(pack):
                name = '-' + pack[j]
                j += 1
                # inside a pack optind still designates the pack
                here = i if j < len(pack) else i + 1
                if name not in opts:
                    emit('unknown', None, None, name, here)
                elif opts[name]:
                    if j < len(pack):
                        emit('opt', name, pack[j:], name, i + 1)
                        flags.add('packarg')
                        j = len(pack)
                    elif i < n:
                        flags.add('nextarg:' + ('opt' if args[i].startswith('-') else 'plain'))
                        i += 1
                        emit('opt', name, args[i - 1], name, i + 1)
                    else:
                        emit('missing', name, None, name, i + 1)
                else:
                    emit('opt', name, None, name, here)
    return ev, i + 1, flags


_ENC = {}


def enc_arg(s):
    r = _ENC.get(s)
    if r is None:
        r = s.encode('latin-1').hex() if s else '_'
        if len(_ENC) < 100000:
            _ENC[s] = r
    return r


def enc_argv(args):
    return ','.join(enc_arg(a) for a in args) if args else '-'


def dec_argv(spec):
    if spec == '-':
        return []
    return ['' if t == '_' else bytes.fromhex(t).decode('latin-1') for t in spec.split(',')]


def fmt_event(T, e):
    """What the driver records for this event in table T."""
    kind, name, arg, ch, optind = e

    def rich(prefix):
        return '%s%s%s@%d' % (prefix, enc_arg(ch), '' if arg is None else '=' + enc_arg(arg), optind)

    def default():
        return rich('?') if T.rich else '?'

    if kind == 'opt':
        if name in T.tail:
            return rich('?')
        return '%s=%s' % (name, enc_arg(arg)) if T.opts[name] else name
    if kind == 'missing' and T.missing and not T.mtail:
        return rich(':') if T.rich else ':'
    return default()


def nwarn(T, ev, opterr):
    """One line on stderr per rejected option, unless opterr is zero or the
    table has a GETOPT_MISSING_ARG label."""
    if not opterr or T.missing:
        return 0
    return sum(1 for e in ev if e[0] != 'opt')


def expect(tid, args, opterr=0):
    ev, optind, flags = model(tid, args)
    T = TABLES[tid]
    parts = [fmt_event(T, e) for e in ev]
    return '%s %d %d' % (','.join(parts) if parts else '-', optind, nwarn(T, ev, opterr)), ev, flags


# --------------------------------------------------------------------------
# Alphabets
# --------------------------------------------------------------------------

_ALPHA = {}


def alphabet(tid, reduced=False):
    k = (tid, reduced)
    if k not in _ALPHA:
        _ALPHA[k] = tuple(_alphabet(tid, reduced))
    return _ALPHA[k]


def _alphabet(tid, reduced=False):
    opts = TABLES[tid].opts
    shorts = [o for o in opts if not o.startswith('--')]
    longs = [o for o in opts if o.startswith('--')]
    sa = [o for o in shorts if opts[o]]
    sn = [o for o in shorts if not opts[o]]
    la = [o for o in longs if opts[o]]
    ln = [o for o in longs if not opts[o]]
    a = ['-', '--', '', 'op', '=', '-q', '--nope']
    a += shorts + longs
    if reduced:
        # one pack ending in an argument-taking short, one '=' form
        if sa and sn:
            a.append(sn[0] + sa[0][1])
        if sa:
            a.append(sa[0] + 'v')
        if la:
            a.append(la[0] + '=v')
        if ln:
            a.append(ln[0] + '=v')
        return list(dict.fromkeys(a))
    a += ['--nope=v', '-=', '---', '--=', 'v=1', '-q-']
    for o in longs:
        a += [o + '=v', o + '=']
    for o in shorts:
        a += [o + '=v']
    for x in sn:
        for y in shorts:
            a.append(x + y[1])              # -ab, -ac
    for x in sa:
        a += [x + 'v', x + '-', x + (sn[0][1] if sn else 'q')]
        for y in sn[:1]:
            a.append(y + x[1] + 'v')        # -acv
            a.append(y + 'q' + x[1])        # -aqc: unknown inside a pack, then missing
    if sn:
        a += [sn[0] + '-', sn[0] + 'q' + sn[0][1], sn[0] + sn[0][1] + sn[0][1]]
    # abbreviations and extensions of long names
    for o in longs:
        a += [o[:-1], o + 'x']
    if tid == 2:
        a += ['--foo=bar', '--foob', '--foobar=', '--fo=o', '--f=--', '--foo=--foobar']
    if tid == 4:
        a += ['--key-', '--key-file=--key', '--k=', '--ke']
    return list(dict.fromkeys(a))


def rand_args(rnd, tid, maxlen=8):
    al = alphabet(tid)
    n = rnd.randrange(0, maxlen + 1)
    out = []
    opts = TABLES[tid].opts
    names = list(opts) or ['-q']
    for _ in range(n):
        r = rnd.random()
        if r < 0.7:
            out.append(rnd.choice(al))
        elif r < 0.85:
            # random pack over registered and unregistered letters
            letters = [o[1] for o in opts if not o.startswith('--')] + ['q', '-', '=', 'v']
            out.append('-' + ''.join(rnd.choice(letters) for _ in range(rnd.randrange(1, 6))))
        elif r < 0.95:
            out.append(rnd.choice(names) + rnd.choice(['', '=', '=v', '=-', '=--', '==', 'x', '=a=b']))
        else:
            out.append(''.join(rnd.choice('-=abfov ') for _ in range(rnd.randrange(0, 5))))
    return out


TRIVIAL = {'operand', 'argc0', 'words_beyond_argc', 'same_vector_reparsed_with_another_table',
           'same_vector_large_table_then_small', 'same_vector_small_table_then_large'}


def nontrivial(flags):
    return bool(flags - TRIVIAL)


# Tables by number of slots (source lines between GETOPT_SWITCH and
# GETOPT_DEFAULT): the same vector parsed twice with tables of different size.
SMALL_TABLES = (11, 12, 5)      # 0, 1, 1 slots
LARGE_TABLES = (10, 2, 1)       # 272, ~22, ~19 slots


def beyond_words(rnd, tid):
    """Non-NULL words which sit in the array behind argv[argc - 1]."""
    al = alphabet(tid)
    return [rnd.choice(al) if rnd.random() < 0.8 else rnd.choice(['junk', '-', '--', '', 'v'])
            for _ in range(rnd.choice([1, 1, 1, 2, 3]))]


def mk_case(rnd, tid, args, kind='getopt', with_prev=True, beyond=None, noargv0=False):
    """beyond: words placed at argv[argc], argv[argc+1], ... of an array with no
    NULL in it; getopt is given argc = 1 + len(args) and must behave as the
    documented grammar says for exactly those words.  noargv0: argc == 0."""
    opterr = 1 if rnd.random() < 0.3 else 0
    if noargv0:
        # nothing to parse: no label is reached, the scan index keeps its
        # initial value 1, nothing is written
        args = []
        exp, ev, flags = '- 1 0', [], {'argc0'}
        spec = '0'
    else:
        exp, ev, flags = expect(tid, args, opterr)
        spec = enc_argv(args)
    if beyond:
        spec += '/' + enc_argv(beyond)
    line = 'G %d %d %s' % (tid, opterr, spec)
    same = False
    if with_prev:
        ptid = pick_table(rnd)
        # abandoned once plimit labels were reached, if that many are reached
        plimit = rnd.randrange(1, 5) if rnd.random() < 0.6 else -1
        if rnd.random() < 0.08:
            # the very same vector first, with a table of another size
            same = True
            if rnd.random() < 0.7:
                ptid = rnd.choice(LARGE_TABLES if tid in SMALL_TABLES else
                                  SMALL_TABLES if tid in LARGE_TABLES else SMALL_TABLES + LARGE_TABLES)
            line += ' %d %d =' % (ptid, plimit)
        else:
            pargs = rand_args(rnd, ptid, 5)
            pspec = enc_argv(pargs)
            if rnd.random() < 0.2:
                pspec += '/' + enc_argv(beyond_words(rnd, ptid))
            line += ' %d %d %s' % (ptid, plimit, pspec)
    flags = set(flags)
    if beyond:
        flags.add('words_beyond_argc')
        if 'missing' in flags:
            flags.add('missing_argument_with_a_word_at_argv_argc')
    if same:
        flags.add('same_vector_reparsed_with_another_table')
        if ptid in LARGE_TABLES and tid in SMALL_TABLES:
            flags.add('same_vector_large_table_then_small')
        if ptid in SMALL_TABLES and tid in LARGE_TABLES:
            flags.add('same_vector_small_table_then_large')
    if exp.endswith(' 0'):
        if opterr and ev and any(e[0] != 'opt' for e in ev):
            flags.add('warnings_silenced_by_missing_arg')
    else:
        flags.add('warned')
    labels = tuple((e[0], e[1]) for e in ev)
    return {'line': line, 'expect': exp, 'kind': kind,
            'sig': sig(tid, labels, exp.split(' ')[1], tuple(sorted(flags))),
            'nt': nontrivial(flags), 'flags': flags, 'tid': tid}


def random_case(rnd, tid, **kw):
    """40%: the vector is the first argc words of a longer array (cut at a
    random place, or the whole vector followed by other words); 1%: argc == 0."""
    args = rand_args(rnd, tid)
    x = rnd.random()
    if x < 0.01:
        return mk_case(rnd, tid, [], noargv0=True, beyond=beyond_words(rnd, tid) if x < 0.005 else None, **kw)
    if x < 0.21 and args:
        k = rnd.randrange(len(args))
        return mk_case(rnd, tid, args[:k], beyond=args[k:], **kw)
    if x < 0.41:
        return mk_case(rnd, tid, args, beyond=beyond_words(rnd, tid), **kw)
    return mk_case(rnd, tid, args, **kw)


def exhaustive(tid, length, reduced):
    al = alphabet(tid, reduced)
    return itertools.product(al, repeat=length)


# --------------------------------------------------------------------------
# Running
# --------------------------------------------------------------------------

def run_batch(exe, cases, acc):
    # the last vector of the batch once more, parsed from an exit handler that
    # was registered before getopt was first used (the driver answers it when
    # it exits, after getopt's own exit-time clean-up): same result expected
    if cases and len(cases[-1]['line'].split()) == 4:
        x = dict(cases[-1])
        x['line'] = 'X' + x['line'][1:]
        x['kind'] = 'getopt-at-exit'
        x['flags'] = set(x['flags']) | {'parsed_from_an_exit_handler'}
        x['sig'] = x['sig'] ^ 0x5e17
        cases = cases + [x]
    r = core.line_shard(exe, cases, timeout=300)
    if len(r['alarms']) > 20:
        acc['stop'] = True          # broken build: no point in going on
    acc['evals'] += r['evals']
    acc['sigs'] |= r['sigs']
    acc['alarms'] += r['alarms'][:40]
    st = acc['stats']
    for c in cases:
        for f in c['flags']:
            k = 'seen_' + f.replace(':', '_')
            st[k] = st.get(k, 0) + 1
        if len(c['line'].split()) > 4:
            st['parsed_after_optreset'] = st.get('parsed_after_optreset', 0) + 1
        k = 'table%d_vectors' % c['tid']
        st[k] = st.get(k, 0) + 1
        if 'tailopt' in c['flags']:
            k = 'table%d_vectors_reaching_a_label_that_falls_into_default' % c['tid']
            st[k] = st.get(k, 0) + 1


def _shard(a):
    exe, seed, tier, i, n, plan, nrand = a
    rnd = random.Random(seed)
    acc = {'evals': 0, 'sigs': set(), 'alarms': [], 'stats': {}, 'samples': []}
    cases = []

    def flush(force=False):
        nonlocal cases
        if acc.get('stop'):
            cases = []
        # the first batch is small: a badly broken build is noticed early
        if cases and (force or len(cases) >= (40000 if acc['evals'] else 400)):
            if len(acc['samples']) < 2:
                acc['samples'].append(cases[len(cases) // 2]['line'])
            run_batch(exe, cases, acc)
            cases = []

    idx = 0
    tsamples = acc['tsamples'] = {}
    for (tid, length, reduced) in plan:
        for args in exhaustive(tid, length, reduced):
            idx += 1
            if idx % n != i:
                continue
            if acc.get('stop'):
                break
            cases.append(mk_case(rnd, tid, list(args)))
            if tid not in tsamples and 'tailopt' in cases[-1]['flags'] and length >= 2:
                tsamples[tid] = '%s -> R %s' % (cases[-1]['line'], cases[-1]['expect'])
            acc['stats']['exhaustive_vectors'] = acc['stats'].get('exhaustive_vectors', 0) + 1
            # the second form of the same vector: a longer array without a
            # NULL, of which these are the first argc words (every vector of
            # length <= 2, every other longer one)
            if length <= 2 or rnd.random() < 0.5:
                cases.append(mk_case(rnd, tid, list(args), with_prev=(rnd.random() < 0.25),
                                     beyond=beyond_words(rnd, tid)))
                if 'bsample' not in acc and 'missing' in cases[-1]['flags'] and length >= 2:
                    acc['bsample'] = '%s -> R %s' % (cases[-1]['line'], cases[-1]['expect'])
                acc['stats']['exhaustive_vectors_also_as_prefix_of_a_longer_array'] = \
                    acc['stats'].get('exhaustive_vectors_also_as_prefix_of_a_longer_array', 0) + 1
            flush()
        if length == 0 and tid % n == i:
            # argc == 0: argv[0] == NULL, or a non-NULL word that is not counted
            cases.append(mk_case(rnd, tid, [], noargv0=True))
            cases.append(mk_case(rnd, tid, [], noargv0=True, beyond=beyond_words(rnd, tid)))
    for _ in range(nrand):
        if acc.get('stop'):
            break
        tid = pick_table(rnd)
        cases.append(random_case(rnd, tid))
        flush()
    flush(True)
    return acc


def _fresh(a):
    """One process per vector: the parse is the first of the process."""
    exe, seed, count = a
    rnd = random.Random(seed)
    acc = {'evals': 0, 'sigs': set(), 'alarms': [], 'stats': {}}
    for _ in range(count):
        tid = pick_table(rnd)
        c = random_case(rnd, tid, kind='getopt-fresh', with_prev=False)
        run_batch(exe, [c], acc)
        if acc.get('stop'):
            break
    acc['stats'] = {'fresh_process_parses': acc['evals']}
    return acc


def _selftest():
    # tests/getopt/test_getopt.sh style expectations, from the header text
    def ex(tid, args, opterr=0):
        return expect(tid, args, opterr)[0]
    assert ex(0, ['-b', '-f', 'x', 'rest']) == '-b,-f=78 4 0'
    assert ex(0, ['-bfx', '--', '-b']) == '-b,-f=78 3 0'
    assert ex(0, ['--foo', '--', '--bar']) == '--foo=2d2d,--bar 4 0'
    assert ex(0, ['--foo=bar', '-', '-b']) == '--foo=626172 2 0'
    assert ex(0, ['--fo', 'x']) == '? 2 0'
    assert ex(0, ['--fo', 'x'], 1) == '? 2 1'
    assert ex(0, ['--bar=1'], 1) == '? 2 1'
    assert ex(0, ['-f'], 1) == '? 2 1'
    assert ex(1, ['-ac'], 1) == '-a,: 2 0'
    assert ex(2, ['--foobar', '--foo=', '--foob']) == '--foobar,--foo=_,? 4 0'
    assert ex(3, ['-zx', '-y']) == '-z,-x=2d79 3 0'
    # compact tables: the shared default block sees (ch, optarg, optind)
    h = enc_arg
    assert ex(6, ['-x', 'val', 'op'], 1) == '?%s=%s@3 3 0' % (h('-x'), h('val'))
    assert ex(6, ['-axval', '--xlong=v', '--xlong', '-n'], 1) == \
        '-a,?%s=%s@2,?%s=%s@3,?%s=%s@5 5 0' % (h('-x'), h('val'), h('--xlong'), h('v'), h('--xlong'), h('-n'))
    assert ex(6, ['-aqn', '--nope=v', '--all=1', '-x'], 1) == \
        '-a,?%s@1,-n,?%s@3,?%s@4,?%s@5 5 4' % (h('-q'), h('--nope=v'), h('--all'), h('-x'))
    assert ex(7, ['-h', '--help=v'], 1) == '?%s@2,?%s@3 3 1' % (h('-h'), h('--help'))
    assert ex(8, ['--version=v', '-n'], 1) == '?%s@2,:%s@3 3 0' % (h('--version'), h('-n'))
    assert ex(9, ['-ts', '--size'], 1) == '-t,-s=%s 3 0' % h('--size')
    assert ex(9, ['--size'], 1) == '?%s@2 2 0' % h('--size')
    assert ex(11, ['-ab'], 1) == '?%s@1,?%s@2 2 2' % (h('-a'), h('-b'))
    assert ex(13, ['--raw', '--raw=1', '-ri'], 1) == '--raw,?%s@3,-r,:%s@4 4 0' % (h('--raw'), h('-i'))


def build(ctx):
    objs = ctx.builder.lib('asan', SRCS)
    return ctx.builder.driver('c18', 'asan', ['c18_getopt.c'], objs, libs=())


NOLD = 6        # tables 0..5: one block per label; 6..: compact layouts


def plan_for(ctx):
    nt = len(TABLES)
    plan = []
    for tid in range(nt):
        for ln in (0, 1, 2):
            plan.append((tid, ln, False))
    if ctx.quick():
        for tid in range(NOLD):
            plan.append((tid, 3, tid in (2,)))      # full alphabet except the largest one
            plan.append((tid, 4, True))
        plan.append((2, 3, True))
        for tid in range(NOLD, nt):
            plan.append((tid, 3, len(alphabet(tid)) > 43))
            if tid in (6, 9, 12):
                plan.append((tid, 4, True))
    else:
        for tid in range(nt):
            plan.append((tid, 3, False))
            plan.append((tid, 4, len(alphabet(tid)) > 36))
            plan.append((tid, 4, True))
            plan.append((tid, 5, True))
    return plan


def run(ctx):
    _selftest()
    exe = build(ctx)
    n = core.NCPU
    seeds = core.shard_seeds(ctx.seed, 'C18', 2 * n)
    plan = plan_for(ctx)
    nrand = max(1, ctx.n(320000, 4000000) // n)
    res = core.pmap(_shard, [(exe, seeds[i], ctx.tier, i, n, plan, nrand) for i in range(n)])
    core.merge(ctx, res)
    nfresh = max(1, ctx.n(480, 6400) // n)
    fres = core.pmap(_fresh, [(exe, seeds[n + i], nfresh) for i in range(n)])
    core.merge(ctx, fres)
    for r in res[:2]:
        for s in r['samples'][:1]:
            ctx.add_sample(s[:200])
    for r in res:
        if r.get('bsample'):
            ctx.add_sample(r['bsample'][:300])
            break
    if not ctx.violations:
        for k in ('seen_missing_argument_with_a_word_at_argv_argc', 'seen_argc0',
                  'seen_same_vector_large_table_then_small', 'seen_same_vector_small_table_then_large'):
            if not sum(r['stats'].get(k, 0) for r in res):
                raise core.Inconclusive('no vector of the family %s was executed' % k[5:])
    for tid in (6, 7, 9, 10, 12, 8):        # compact tables: a vector reaching the last slots, with the answer
        for r in res:
            if tid in r.get('tsamples', {}):
                ctx.add_sample(r['tsamples'][tid][:300])
                break
    # every boundary slot must have been exercised
    if not ctx.violations:
        for tid, T in enumerate(TABLES):
            tot = sum(r['stats'].get('table%d_vectors' % tid, 0) for r in res)
            tl = sum(r['stats'].get('table%d_vectors_reaching_a_label_that_falls_into_default' % tid, 0)
                     for r in res)
            if tot == 0 or (T.tail and tl == 0):
                raise core.Inconclusive('table %d was not exercised (%d vectors, %d reaching its last slots)'
                                        % (tid, tot, tl))
    ctx.cov['tables'] = ['%d: %s%s [%s]' % (i, ' '.join(o + (':' if h else '') for o, h in t.opts.items()),
                                            ' +MISSING_ARG' if t.missing else '', t.layout)
                         for i, t in enumerate(TABLES)]
    ctx.cov['alphabet_sizes'] = {str(i): [len(alphabet(i)), len(alphabet(i, True))]
                                 for i in range(len(TABLES))}
    ctx.cov['exhaustive_plan'] = ['table %d length %d %s alphabet' % (t, l, 'reduced' if r else 'full')
                                  for t, l, r in plan if l >= 3]
    ctx.cov['rule'] = (
        'case = (table, opterr, argv) parsed after optreset=1 following a random other (table, argv) '
        'that is abandoned once 1..4 labels were reached in 60% of the cases and whose strings are '
        'freed; a table is a set of options AND a source layout (the library indexes its table by the '
        'line of each label relative to GETOPT_SWITCH): tables 0-5 have one statement block per '
        'label, tables 6-13 are compact layouts with labels in the boundary slots - slot 0 (on the '
        'GETOPT_SWITCH line), slot 1, the slot directly above GETOPT_DEFAULT (GETOPT_OPTARG / short '
        'GETOPT_OPT / long GETOPT_OPT / GETOPT_MISSING_ARG falling through into the default block, '
        'or a one-line label with its own statement), labels on consecutive lines sharing a '
        'statement, GETOPT_MISSING_ARG first / between labels / last / absent, zero slots, one slot, '
        '272 slots with labels in slots 255 and 256 (see "tables"); a block shared with GETOPT_DEFAULT '
        'records (string returned by GETOPT, optarg, optind) and the model knows that a registered '
        'option consumes its argument there while an unknown one does not; the number of lines the '
        'library writes to stderr is compared (opterr=1 in 30% of the cases: one line per rejected '
        'option unless the table has GETOPT_MISSING_ARG); argv exhaustive over the per-table alphabet (registered shorts/longs with and '
        'without =v, "=", unknown options, "-", "--", "", operands, packs mixing argument-taking '
        'options, abbreviations/extensions of long names) for the lengths listed in '
        'exhaustive_plan, random to length 8; a sample is parsed as the first parse of a fresh '
        'process.  Second form (flag words_beyond_argc; every exhaustive vector of length <= 2, half of the longer '
        'ones, 40% of the random and fresh-process ones, 20% of the previous vectors): the counted words are '
        'followed in the array by 1-3 other non-NULL words (options, "--", "-", "", operands, or the rest of the '
        'same random command line cut at a random place) and the array (exactly argc + extra pointers) holds no '
        'NULL; getopt gets argc and the expected trace, optarg values, warnings and final optind are the '
        'model\'s for the counted words only - counter seen_missing_argument_with_a_word_at_argv_argc = vectors '
        'whose last counted word is an argument-taking option (-f, packed -bf, --foo) with a word behind it that '
        'must not be taken.  argc == 0 (flag argc0): argv[0] == NULL or an uncounted word, expected no label, '
        'optind 1, nothing written.  8% of the cases parse the very same array and strings twice (flag '
        'same_vector_reparsed_with_another_table), first with another table (biased to 272/22/19 slots before 0/1 '
        'slots and the reverse: counters seen_same_vector_large_table_then_small / small_table_then_large), '
        'possibly abandoned, then optreset and the judged parse.  Long options one of which is a proper prefix '
        'of another are registered in both orders (table 2: --foo before --foobar, --fo and --f after --foo; '
        'table 4: --key before --key-file, --k after both).  non-trivial = the model uses at least one rule beyond "first operand stops" '
        '(pack, attached/next/= argument, --, unknown, unwanted =value, missing argument); '
        'distinct = distinct (table, label sequence, final optind, rules used incl. warned / '
        'warnings silenced)')
    ctx.cov['sanitizers'] = ('gcc -fsanitize=address,undefined; every argv string and the argv array '
                             '(argc+1 pointers ending in NULL, or argc+k pointers with k uncounted words and no NULL) are exact-size '
                             'heap blocks; previous argv freed before the next parse')
    ctx.assumptions += [
        'getopt(argc, argv) may be given a count smaller than the array: argv[argc] and what follows are not part '
        'of the command line and need not be NULL (the interface takes argc; nothing in getopt.h requires a '
        'terminator)',
        'a parse with argc == 0 reaches no label and leaves optind at its initial value 1',
        'after an unregistered letter inside a pack the remaining letters are still processed '
        '(standard getopt behaviour; the header is silent)',
        "'=' has no special meaning after a short option: it is the next letter of the pack or part "
        'of the attached argument',
        'optarg is compared at GETOPT_OPTARG labels and in blocks shared with GETOPT_DEFAULT (tables 6-13), '
        'where it must be NULL for an unknown option, an unwanted =value and a missing argument',
        'in a GETOPT_DEFAULT / GETOPT_MISSING_ARG block the string returned by GETOPT is the registered '
        'option string when a registered option is rejected (unwanted =value, missing argument), the '
        'whole command-line element for an unregistered long option and "-c" for an unregistered '
        'letter c; optind inside a pack still designates the pack (standard getopt behaviour)',
        'warnings: exactly one line on stderr per option that reaches GETOPT_DEFAULT because it is '
        'unknown / has an unwanted =value / lacks its argument, when opterr != 0 and the table has no '
        'GETOPT_MISSING_ARG; none otherwise (getopt.h: GETOPT_MISSING_ARG disables the warnings "as if '
        'opterr had been zeroed").  Only the number of lines is compared, not their text',
        'a GETOPT_OPT label is never placed directly above a GETOPT_OPTARG label without a break: '
        'falling from one into the other trips the assert(optarg != NULL) of GETOPT_OPTARG (usage '
        'constraint of the macros, not judged)',
    ]


def replay(ctx, case):
    _selftest()
    exe = build(ctx)
    c = dict(case)
    r = core.line_shard(exe, [c])
    core.merge(ctx, [r])

"""C18 - command-line parsing follows the documented option grammar for every
argv.

Oracle: a Python model written from the comment at the top of util/getopt.h
and the GETOPT_* macro documentation (not from getopt.c): packed short
options; the argument of an argument-taking option is the rest of the pack,
the text after '=' (long options), or the next element whatever it looks
like; '--' is consumed and ends option processing; a lone '-', the empty
string and the first operand end it without being consumed; an unregistered
option or an unwanted '=value' reaches GETOPT_DEFAULT; a missing argument
reaches GETOPT_MISSING_ARG if the table has one, else GETOPT_DEFAULT; no
abbreviations: '--foo' never means '--foobar'.  The trace compared is the
sequence of (label reached, optarg at GETOPT_OPTARG labels) and the final
optind.

Driver: six tables compiled in through the real macros (harness/
c18_getopt.c).  Every vector is parsed after `optreset = 1` following another
vector (other table, possibly abandoned in the middle of a pack, its argv
freed), and a sample again as the first parse of a fresh process; both must
equal the model.
"""
import itertools
import random
import zlib

from . import core

SRCS = ['util/getopt.c']

# (options: name -> takes an argument, has GETOPT_MISSING_ARG); must stay in
# step with harness/c18_getopt.c.
TABLES = [
    ({'-b': 0, '--bar': 0, '-f': 1, '--foo': 1}, False),
    ({'-a': 0, '-b': 0, '-c': 1, '--long': 0, '--arg': 1}, True),
    ({'--foo': 1, '--foobar': 0, '--fo': 0, '--f': 1, '-o': 1, '-f': 0}, True),
    ({'-x': 1, '-y': 1, '-z': 0, '-Z': 0, '--zed': 0}, False),
    ({'--key': 1, '--key-file': 1, '--k': 0, '-k': 0}, True),
    ({}, False),
]


def sig(*a):
    return zlib.crc32(repr(a).encode())


# --------------------------------------------------------------------------
# The documented grammar
# --------------------------------------------------------------------------

def model(tid, args, limit=-1):
    """args: the arguments after argv[0].  -> (events, optind, flags)
    event = (label, optarg|None)."""
    opts, has_missing = TABLES[tid]
    miss = ':' if has_missing else '?'
    ev = []
    flags = set()
    i = 0
    n = len(args)
    while i < n:
        a = args[i]
        if a == '--':
            i += 1
            flags.add('dashdash')
            break
        if a == '-' or not a.startswith('-'):
            flags.add('operand')
            break
        if a.startswith('--'):
            i += 1
            name, eq, val = a.partition('=')
            if name not in opts:
                ev.append(('?', None))
                flags.add('unknown')
            elif opts[name]:
                if eq:
                    ev.append((name, val))
                    flags.add('eqarg')
                elif i < n:
                    ev.append((name, args[i]))
                    flags.add('nextarg:' + ('opt' if args[i].startswith('-') else 'plain'))
                    i += 1
                else:
                    ev.append((miss, None))
                    flags.add('missing')
            elif eq:
                ev.append(('?', None))
                flags.add('unwanted')
            else:
                ev.append((name, None))
        else:
            pack = a[1:]
            i += 1
            if len(pack) > 1:
                flags.add('pack')
            j = 0
            while j < len(pack):
                name = '-' + pack[j]
                j += 1
                if name not in opts:
                    ev.append(('?', None))
                    flags.add('unknown')
                elif opts[name]:
                    if j < len(pack):
                        ev.append((name, pack[j:]))
                        flags.add('packarg')
                        j = len(pack)
                    elif i < n:
                        ev.append((name, args[i]))
                        flags.add('nextarg:' + ('opt' if args[i].startswith('-') else 'plain'))
                        i += 1
                    else:
                        ev.append((miss, None))
                        flags.add('missing')
                else:
                    ev.append((name, None))
    return ev, i + 1, flags


def enc_arg(s):
    return s.encode('latin-1').hex() if s else '_'


def enc_argv(args):
    return ','.join(enc_arg(a) for a in args) if args else '-'


def dec_argv(spec):
    if spec == '-':
        return []
    return ['' if t == '_' else bytes.fromhex(t).decode('latin-1') for t in spec.split(',')]


def expect(tid, args):
    ev, optind, flags = model(tid, args)
    parts = []
    for label, arg in ev:
        opts = TABLES[tid][0]
        if label in opts and opts[label]:
            parts.append('%s=%s' % (label, enc_arg(arg)))
        else:
            parts.append(label)
    return '%s %d' % (','.join(parts) if parts else '-', optind), ev, flags


# --------------------------------------------------------------------------
# Alphabets
# --------------------------------------------------------------------------

def alphabet(tid, reduced=False):
    opts, _ = TABLES[tid]
    shorts = [o for o in opts if not o.startswith('--')]
    longs = [o for o in opts if o.startswith('--')]
    sa = [o for o in shorts if opts[o]]
    sn = [o for o in shorts if not opts[o]]
    la = [o for o in longs if opts[o]]
    ln = [o for o in longs if not opts[o]]
    a = ['-', '--', '', 'op', '=', '-q', '--nope']
    a += shorts + longs
    if reduced:
        # one pack ending in an argument-taking short, one '=' form
        if sa and sn:
            a.append(sn[0] + sa[0][1])
        if sa:
            a.append(sa[0] + 'v')
        if la:
            a.append(la[0] + '=v')
        if ln:
            a.append(ln[0] + '=v')
        return list(dict.fromkeys(a))
    a += ['--nope=v', '-=', '---', '--=', 'v=1', '-q-']
    for o in longs:
        a += [o + '=v', o + '=']
    for o in shorts:
        a += [o + '=v']
    for x in sn:
        for y in shorts:
            a.append(x + y[1])              # -ab, -ac
    for x in sa:
        a += [x + 'v', x + '-', x + (sn[0][1] if sn else 'q')]
        for y in sn[:1]:
            a.append(y + x[1] + 'v')        # -acv
            a.append(y + 'q' + x[1])        # -aqc: unknown inside a pack, then missing
    if sn:
        a += [sn[0] + '-', sn[0] + 'q' + sn[0][1], sn[0] + sn[0][1] + sn[0][1]]
    # abbreviations and extensions of long names
    for o in longs:
        a += [o[:-1], o + 'x']
    if tid == 2:
        a += ['--foo=bar', '--foob', '--foobar=', '--fo=o', '--f=--', '--foo=--foobar']
    if tid == 4:
        a += ['--key-', '--key-file=--key', '--k=', '--ke']
    return list(dict.fromkeys(a))


def rand_args(rnd, tid, maxlen=8):
    al = alphabet(tid)
    n = rnd.randrange(0, maxlen + 1)
    out = []
    opts = TABLES[tid][0]
    names = list(opts) or ['-q']
    for _ in range(n):
        r = rnd.random()
        if r < 0.7:
            out.append(rnd.choice(al))
        elif r < 0.85:
            # random pack over registered and unregistered letters
            letters = [o[1] for o in opts if not o.startswith('--')] + ['q', '-', '=', 'v']
            out.append('-' + ''.join(rnd.choice(letters) for _ in range(rnd.randrange(1, 6))))
        elif r < 0.95:
            out.append(rnd.choice(names) + rnd.choice(['', '=', '=v', '=-', '=--', '==', 'x', '=a=b']))
        else:
            out.append(''.join(rnd.choice('-=abfov ') for _ in range(rnd.randrange(0, 5))))
    return out


def nontrivial(flags):
    return bool(flags - {'operand'})


def mk_case(rnd, tid, args, kind='getopt', with_prev=True):
    exp, ev, flags = expect(tid, args)
    opterr = 1 if rnd.random() < 0.1 else 0
    line = 'G %d %d %s' % (tid, opterr, enc_argv(args))
    if with_prev:
        ptid = rnd.randrange(len(TABLES))
        pargs = rand_args(rnd, ptid, 5)
        pev, _, _ = model(ptid, pargs)
        plimit = rnd.randrange(1, len(pev) + 1) if (pev and rnd.random() < 0.6) else -1
        line += ' %d %d %s' % (ptid, plimit, enc_argv(pargs))
    labels = tuple(l for l, _ in ev)
    return {'line': line, 'expect': exp, 'kind': kind,
            'sig': sig(tid, labels, exp.rsplit(' ', 1)[1], tuple(sorted(flags))),
            'nt': nontrivial(flags), 'flags': flags}


def exhaustive(tid, length, reduced):
    al = alphabet(tid, reduced)
    return itertools.product(al, repeat=length)


# --------------------------------------------------------------------------
# Running
# --------------------------------------------------------------------------

def run_batch(exe, cases, acc):
    r = core.line_shard(exe, cases, timeout=300)
    if len(r['alarms']) > 20:
        acc['stop'] = True          # broken build: no point in going on
    acc['evals'] += r['evals']
    acc['sigs'] |= r['sigs']
    acc['alarms'] += r['alarms'][:40]
    st = acc['stats']
    for c in cases:
        for f in c['flags']:
            k = 'seen_' + f.replace(':', '_')
            st[k] = st.get(k, 0) + 1
        if len(c['line'].split()) > 4:
            st['parsed_after_optreset'] = st.get('parsed_after_optreset', 0) + 1


def _shard(a):
    exe, seed, tier, i, n, plan, nrand = a
    rnd = random.Random(seed)
    acc = {'evals': 0, 'sigs': set(), 'alarms': [], 'stats': {}, 'samples': []}
    cases = []

    def flush(force=False):
        nonlocal cases
        if acc.get('stop'):
            cases = []
        # the first batch is small: a badly broken build is noticed early
        if cases and (force or len(cases) >= (40000 if acc['evals'] else 400)):
            if len(acc['samples']) < 2:
                acc['samples'].append(cases[len(cases) // 2]['line'])
            run_batch(exe, cases, acc)
            cases = []

    idx = 0
    for (tid, length, reduced) in plan:
        for args in exhaustive(tid, length, reduced):
            idx += 1
            if idx % n != i:
                continue
            if acc.get('stop'):
                break
            cases.append(mk_case(rnd, tid, list(args)))
            acc['stats']['exhaustive_vectors'] = acc['stats'].get('exhaustive_vectors', 0) + 1
            flush()
    for _ in range(nrand):
        if acc.get('stop'):
            break
        tid = rnd.randrange(len(TABLES))
        cases.append(mk_case(rnd, tid, rand_args(rnd, tid)))
        flush()
    flush(True)
    return acc


def _fresh(a):
    """One process per vector: the parse is the first of the process."""
    exe, seed, count = a
    rnd = random.Random(seed)
    acc = {'evals': 0, 'sigs': set(), 'alarms': [], 'stats': {}}
    for _ in range(count):
        tid = rnd.randrange(len(TABLES))
        c = mk_case(rnd, tid, rand_args(rnd, tid), kind='getopt-fresh', with_prev=False)
        run_batch(exe, [c], acc)
        if acc.get('stop'):
            break
    acc['stats'] = {'fresh_process_parses': acc['evals']}
    return acc


def _selftest():
    # tests/getopt/test_getopt.sh style expectations, from the header text
    assert expect(0, ['-b', '-f', 'x', 'rest'])[0] == '-b,-f=78 4'
    assert expect(0, ['-bfx', '--', '-b'])[0] == '-b,-f=78 3'
    assert expect(0, ['--foo', '--', '--bar'])[0] == '--foo=2d2d,--bar 4'
    assert expect(0, ['--foo=bar', '-', '-b'])[0] == '--foo=626172 2'
    assert expect(0, ['--fo', 'x'])[0] == '? 2'
    assert expect(0, ['--bar=1'])[0] == '? 2'
    assert expect(0, ['-f'])[0] == '? 2'
    assert expect(1, ['-ac'])[0] == '-a,: 2'
    assert expect(2, ['--foobar', '--foo=', '--foob'])[0] == '--foobar,--foo=_,? 4'
    assert expect(3, ['-zx', '-y'])[0] == '-z,-x=2d79 3'


def build(ctx):
    objs = ctx.builder.lib('asan', SRCS)
    return ctx.builder.driver('c18', 'asan', ['c18_getopt.c'], objs, libs=())


def plan_for(ctx):
    nt = len(TABLES)
    plan = []
    for tid in range(nt):
        for ln in (0, 1, 2):
            plan.append((tid, ln, False))
    if ctx.quick():
        for tid in range(nt):
            plan.append((tid, 3, tid in (2,)))      # full alphabet except the largest one
            plan.append((tid, 4, True))
        plan.append((2, 3, True))
    else:
        for tid in range(nt):
            plan.append((tid, 3, False))
            plan.append((tid, 4, len(alphabet(tid)) > 36))
            plan.append((tid, 4, True))
            plan.append((tid, 5, True))
    return plan


def run(ctx):
    _selftest()
    exe = build(ctx)
    n = core.NCPU
    seeds = core.shard_seeds(ctx.seed, 'C18', 2 * n)
    plan = plan_for(ctx)
    nrand = max(1, ctx.n(320000, 4000000) // n)
    res = core.pmap(_shard, [(exe, seeds[i], ctx.tier, i, n, plan, nrand) for i in range(n)])
    core.merge(ctx, res)
    nfresh = max(1, ctx.n(480, 6400) // n)
    fres = core.pmap(_fresh, [(exe, seeds[n + i], nfresh) for i in range(n)])
    core.merge(ctx, fres)
    for r in res[:4]:
        for s in r['samples'][:2]:
            ctx.add_sample(s[:200])
    ctx.cov['tables'] = ['%d: %s%s' % (i, ' '.join(o + (':' if h else '') for o, h in t[0].items()),
                                       ' +MISSING_ARG' if t[1] else '') for i, t in enumerate(TABLES)]
    ctx.cov['alphabet_sizes'] = {str(i): [len(alphabet(i)), len(alphabet(i, True))]
                                 for i in range(len(TABLES))}
    ctx.cov['exhaustive_plan'] = ['table %d length %d %s alphabet' % (t, l, 'reduced' if r else 'full')
                                  for t, l, r in plan if l >= 3]
    ctx.cov['rule'] = (
        'case = (table, argv) parsed after optreset=1 following a random other (table, argv) that '
        'is abandoned after a random number of labels in 60% of the cases and whose strings are '
        'freed; argv exhaustive over the per-table alphabet (registered shorts/longs with and '
        'without =v, "=", unknown options, "-", "--", "", operands, packs mixing argument-taking '
        'options, abbreviations/extensions of long names) for the lengths listed in '
        'exhaustive_plan, random to length 8; a sample is parsed as the first parse of a fresh '
        'process.  non-trivial = the model uses at least one rule beyond "first operand stops" '
        '(pack, attached/next/= argument, --, unknown, unwanted =value, missing argument); '
        'distinct = distinct (table, label sequence, final optind, rules used)')
    ctx.cov['sanitizers'] = ('gcc -fsanitize=address,undefined; every argv string and the argv array '
                             '(argc+1 pointers) are exact-size heap blocks; previous argv freed before the next parse')
    ctx.assumptions += [
        'after an unregistered letter inside a pack the remaining letters are still processed '
        '(standard getopt behaviour; the header is silent)',
        "'=' has no special meaning after a short option: it is the next letter of the pack or part "
        'of the attached argument',
        'optarg is compared at GETOPT_OPTARG labels only; warnings on stderr are not compared',
    ]


def replay(ctx, case):
    _selftest()
    exe = build(ctx)
    c = dict(case)
    r = core.line_shard(exe, [c])
    core.merge(ctx, [r])

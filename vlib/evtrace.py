"""Trace checker for the event-loop log written by harness/c04_events.c.

Two rule sets over the same executions:
  C04: a callback runs at most once, only while registered, only when due.
  C05: dispatch order, progress, status propagation, nothing lost.

Everything is judged from records made at the API boundary (register /
cancel / reset calls and their results, callback entry/exit, the arguments and
results of every poll, virtual-clock values, world changes the driver made).
"""
import math

POLLIN, POLLOUT, POLLERR, POLLHUP = 1, 4, 8, 16
EEXIST, ENOENT = 17, 2


class Reg:
    __slots__ = ('id', 'kind', 'live', 'prio', 'seq', 'fd', 'op', 'timeout',
                 'deadline', 'ready_seen', 'fired', 'cancelled', 'regpoll')


class ProgramChecker:
    """Feed lines of ONE program; collect alarms as (prop, key, detail)."""

    def __init__(self, idx):
        self.idx = idx
        self.regs = {}
        self.sock = {}            # (fd, op) -> live Reg
        self.flags = {}           # fd -> [rd, wr, hup, err]
        self.alarms = []
        self.seq = 0
        self.npoll = 0            # number of polls so far
        self.lastpoll = {}        # fd -> revents of the most recent poll
        self.inrun = False
        self.run = None
        self.draining = False
        self.now = 0
        self.nevents = 0
        self.cb_count = 0
        self.malformed = 0
        self.stats = {'cb': 0, 'poll': 0, 'timer_cb_checked': 0,
                      'sock_cb_hup_rule': 0, 'order_checks': 0,
                      'progress_checks': 0, 'block_bound_checks': 0}

    def alarm(self, prop, key, detail):
        if len(self.alarms) < 20:
            self.alarms.append((prop, key, detail))

    # -- helpers
    def fl(self, fd):
        return self.flags.setdefault(fd, [0, 0, 0, 0])

    def world_ready(self, r):
        f = self.fl(r.fd)
        return bool(f[r.op] or f[2] or f[3])

    def live_imm(self):
        return [r for r in self.regs.values() if r.live and r.kind == 0]

    def live_timers(self):
        return [r for r in self.regs.values() if r.live and r.kind == 2]

    def runnable(self):
        for r in self.regs.values():
            if not r.live:
                continue
            if r.kind == 0:
                return True
            if r.kind == 1 and self.world_ready(r):
                return True
            if r.kind == 2 and r.deadline <= self.now:
                return True
        return False

    # -- record handlers
    def feed(self, line):
        t = line.split()
        if not t:
            return
        self.nevents += 1
        k = t[0]
        h = getattr(self, 'r_' + k, None)
        if h is not None:
            try:
                h(t)
            except (IndexError, ValueError, KeyError):
                # a record cut short by a crash of the driver (last line)
                self.malformed += 1

    def r_P(self, t):
        self.now = int(t[3])

    def r_RI(self, t):
        r = Reg()
        r.id, r.kind, r.prio, r.live = int(t[1]), 0, int(t[2]), t[3] == '1'
        self.seq += 1
        r.seq = self.seq
        r.fired = r.cancelled = False
        self.regs[r.id] = r
        if not r.live:
            self.alarm('C04', 'register-failed:immediate', 'RI returned NULL without allocation failure')

    def r_RS(self, t):
        r = Reg()
        r.id, r.kind, r.fd, r.op = int(t[1]), 1, int(t[2]), int(t[3])
        rc, en = int(t[4]), int(t[5])
        r.fired = r.cancelled = False
        r.ready_seen = False
        r.regpoll = self.npoll
        occupied = (r.fd, r.op) in self.sock
        if occupied:
            r.live = False
            if rc == 0:
                self.alarm('C04', 'register:eexist-missing',
                           'registration on occupied (fd %d, op %d) succeeded' % (r.fd, r.op))
                # the library now believes the new one; follow it to avoid cascades
                old = self.sock[(r.fd, r.op)]
                old.live = False
                r.live = True
                self.sock[(r.fd, r.op)] = r
            elif en != EEXIST:
                self.alarm('C04', 'register:wrong-errno',
                           'occupied slot: errno %d, expected EEXIST' % en)
        else:
            if rc != 0:
                r.live = False
                self.alarm('C04', 'register:free-slot-refused',
                           'registration on free (fd %d, op %d) failed errno %d (a registration '
                           'that already fired or was cancelled can be made again)' % (r.fd, r.op, en))
            else:
                r.live = True
                self.sock[(r.fd, r.op)] = r
        self.regs[r.id] = r

    def r_RT(self, t):
        r = Reg()
        r.id, r.kind, r.timeout, r.live = int(t[1]), 2, int(t[2]), t[3] == '1'
        self.now = int(t[4])
        r.deadline = self.now + r.timeout
        r.fired = r.cancelled = False
        self.regs[r.id] = r
        if not r.live:
            self.alarm('C04', 'register-failed:timer', 'RT returned NULL without allocation failure')

    def r_CI(self, t):
        r = self.regs[int(t[1])]
        r.live = False
        r.cancelled = True

    def r_CT(self, t):
        r = self.regs[int(t[1])]
        r.live = False
        r.cancelled = True

    def r_CS(self, t):
        rid, fd, op, rc, en = int(t[1]), int(t[2]), int(t[3]), int(t[4]), int(t[5])
        cur = self.sock.get((fd, op))
        if cur is None:
            if rc == 0:
                self.alarm('C04', 'cancel:absent-succeeded',
                           'cancel of absent (fd %d, op %d) returned 0' % (fd, op))
            elif en != ENOENT:
                self.alarm('C04', 'cancel:wrong-errno', 'absent: errno %d, expected ENOENT' % en)
        else:
            if rc != 0:
                self.alarm('C04', 'cancel:present-refused',
                           'cancel of live (fd %d, op %d) failed errno %d' % (fd, op, en))
            cur.live = False
            cur.cancelled = True
            del self.sock[(fd, op)]

    def r_ZT(self, t):
        r = self.regs[int(t[1])]
        self.now = int(t[3])
        if int(t[2]) != 0:
            self.alarm('C04', 'reset:failed', 'events_timer_reset returned %s' % t[2])
        if r.live:
            r.deadline = self.now + r.timeout

    def r_W(self, t):
        fd, what, val = int(t[1]), t[2], int(t[3])
        i = {'rd': 0, 'wr': 1, 'hup': 2, 'err': 3}.get(what)
        if i is not None:
            self.fl(fd)[i] = val

    def r_AD(self, t):
        self.now += int(t[1])

    def r_SI(self, t):
        if self.run is not None:
            self.run['intr_pending'] = True

    def r_IV(self, t):
        self.alarm('C04', 'invariant:%s' % t[1], ' '.join(t[2:]))

    def r_DR(self, t):
        self.draining = True
        self.live_at_drain = [r.id for r in self.regs.values() if r.live]

    def r_RB(self, t):
        self.run = {'kind': int(t[1]), 'ncb': 0, 'stop': None, 'intr_pending': False,
                    'runnable0': self.runnable(), 'slept_before_first_cb': False,
                    'npolls': 0, 'wake_needs_cb': False, 'first_poll': None,
                    'now0': self.now, 'after_stop_cb': 0, 'done_seen': False}
        if self.run['runnable0']:
            self.stats['progress_checks'] += 1

    def r_PL(self, t):
        timeout, rc, t0, t1, n = int(t[1]), int(t[2]), int(t[3]), int(t[4]), int(t[5])
        self.npoll += 1
        self.stats['poll'] += 1
        self.now = t1
        self.lastpoll = {}
        ents = t[6:]
        for i in range(n):
            fd, ev, rev = int(ents[3 * i]), int(ents[3 * i + 1]), int(ents[3 * i + 2])
            self.lastpoll[fd] = rev
            if rc > 0:
                for op, bit in ((0, POLLIN), (1, POLLOUT)):
                    if rev & bit:
                        r = self.sock.get((fd, op))
                        if r is not None:
                            r.ready_seen = True
        run = self.run
        if run is None:
            return
        run['npolls'] += 1
        if run['ncb'] == 0 and t1 > t0 and run['runnable0'] and run['kind'] == 0:
            run['slept_before_first_cb'] = True
            self.alarm('C05', 'progress:slept-while-runnable',
                       'run started with something runnable but poll(timeout=%d) slept %d us before any callback'
                       % (timeout, t1 - t0))
        if run['npolls'] == 1 and not run['runnable0'] and run['kind'] == 0:
            # blocking bound: no longer than until the earliest deadline, rounded up to a ms
            self.stats['block_bound_checks'] += 1
            tm = self.live_timers()
            if tm:
                dmin = min(r.deadline for r in tm)
                bound = max(0, math.ceil((dmin - t0) / 1000.0))
                if timeout < 0 or timeout > bound:
                    self.alarm('C05', 'block:timeout-too-long',
                               'nothing runnable, earliest deadline in %d us, poll timeout %d ms (bound %d)'
                               % (dmin - t0, timeout, bound))
            elif timeout != -1 and timeout != 0:
                pass   # no timers: any finite timeout is allowed ("blocks no longer than")
        # waking because a descriptor became ready or a timer expired => a callback must follow
        if rc > 0:
            run['wake_needs_cb'] = 'poll reported %d ready' % rc
        elif rc == 0 and any(r.deadline <= t1 for r in self.live_timers()):
            run['wake_needs_cb'] = 'a timer had expired when poll returned'

    def r_CB(self, t):
        rid, now = int(t[1]), int(t[2])
        self.now = now
        self.stats['cb'] += 1
        r = self.regs.get(rid)
        run = self.run
        if r is None:
            self.alarm('C04', 'callback:unknown', 'callback with unknown cookie %d' % rid)
            return
        # ---- C04: only while registered, at most once
        if not r.live:
            why = 'after-cancel' if r.cancelled else ('twice' if r.fired else 'never-live')
            self.alarm('C04', 'callback:not-registered:' + why,
                       'callback of registration %d (kind %d) ran while not registered (%s)' % (rid, r.kind, why))
            if run is not None:
                run['ncb'] += 1
            return
        # ---- C04: only when due
        if r.kind == 1:
            lp = self.lastpoll.get(r.fd)
            hup = lp is not None and (lp & (POLLERR | POLLHUP))
            if not r.ready_seen and not hup:
                self.alarm('C04', 'callback:socket-not-reported-ready',
                           'socket callback (fd %d, op %d) ran although no poll since its registration reported '
                           'that direction ready and the latest poll reported no error/hang-up' % (r.fd, r.op))
            if not r.ready_seen and hup:
                self.stats['sock_cb_hup_rule'] += 1
        elif r.kind == 2:
            self.stats['timer_cb_checked'] += 1
            if now < r.deadline:
                self.alarm('C04', 'callback:timer-early',
                           'timer callback ran %d us before its deadline' % (r.deadline - now))
        # ---- C05: order
        if not self.draining or True:
            self.stats['order_checks'] += 1
            imm = self.live_imm()
            if r.kind == 0:
                head = min(imm, key=lambda x: (x.prio, x.seq))
                if head is not r:
                    self.alarm('C05', 'order:immediate',
                               'immediate %d (prio %d) ran before %d (prio %d, registered %s)'
                               % (r.id, r.prio, head.id, head.prio,
                                  'earlier' if head.seq < r.seq else 'later'))
            else:
                if imm:
                    self.alarm('C05', 'order:%s-before-immediate' % ('socket' if r.kind == 1 else 'timer'),
                               'a pending immediate (%d) was passed over' % imm[0].id)
                if r.kind == 2:
                    rs = [s for s in self.sock.values() if s.live and self.world_ready(s)]
                    if rs:
                        self.alarm('C05', 'order:timer-before-ready-socket',
                                   'timer ran while registered socket (fd %d, op %d) was ready' % (rs[0].fd, rs[0].op))
                    early = [x for x in self.live_timers() if x.deadline < r.deadline]
                    if early:
                        self.alarm('C05', 'order:timer-deadline',
                                   'timer with deadline %d ran before one with deadline %d'
                                   % (r.deadline, early[0].deadline))
        # ---- C05: nothing after a stop
        if run is not None:
            if run['stop'] is not None or run['intr_pending']:
                self.alarm('C05', 'status:callback-after-stop',
                           'callback ran after %s in the same run' % (run['stop'] or 'an interrupt request'))
            run['ncb'] += 1
            run['wake_needs_cb'] = False
        else:
            self.alarm('C04', 'callback:outside-run', 'callback outside events_run')
        r.live = False
        r.fired = True
        if r.kind == 1 and self.sock.get((r.fd, r.op)) is r:
            del self.sock[(r.fd, r.op)]

    def r_CE(self, t):
        rc, intr = int(t[2]), int(t[3])
        run = self.run
        if run is None:
            return
        if rc != 0 and run['stop'] is None:
            run['stop'] = 'a non-zero return (%d)' % rc
            run['rc'] = rc
        if intr:
            run['intr_pending'] = True

    def r_RE(self, t):
        rc = int(t[1])
        done = int(t[2]) if len(t) > 2 else 0
        run = self.run
        self.run = None
        if run is None:
            return
        if run['stop'] is not None:
            if rc != run['rc']:
                self.alarm('C05', 'status:rc-not-propagated',
                           'callback returned %d but the run returned %d' % (run['rc'], rc))
        elif rc != 0:
            self.alarm('C05', 'status:spurious-rc', 'run returned %d but no callback returned non-zero' % rc)
        if run['runnable0'] and run['ncb'] == 0 and not run['intr_pending']:
            self.alarm('C05', 'progress:no-callback',
                       'run started with something runnable and returned without running a callback')
        if run['wake_needs_cb'] and not run['intr_pending'] and run['stop'] is None:
            self.alarm('C05', 'progress:woke-without-callback',
                       'poll woke (%s) but the run returned without running a callback' % run['wake_needs_cb'])
        if run['kind'] == 1 and run['stop'] is None and not run['intr_pending'] and not done:
            self.alarm('C05', 'status:spin-returned-early', 'events_spin returned 0 with done unset and no interrupt')

    def r_END(self, t):
        lost = [r for r in self.regs.values() if r.live]
        for r in lost[:3]:
            self.alarm('C05', 'lost:%s' % ('immediate', 'socket', 'timer')[r.kind],
                       'registration %d never ran although everything was made ready and the clock moved '
                       'past every deadline (events not yet run must stay registered)' % r.id)


def check_stream(lines):
    """lines: iterable of log lines (several programs).  Yields
    (program index, ProgramChecker) for every completed program."""
    pc = None
    for line in lines:
        if line.startswith('P '):
            pc = ProgramChecker(int(line.split()[1]))
            pc.feed(line)
        elif pc is not None:
            pc.feed(line)
            if line.startswith('END'):
                yield pc.idx, pc
                pc = None
    if pc is not None:
        pc.incomplete = True
        yield pc.idx, pc

"""C16 - numeric text parsing is exact: right value, or EINVAL/ERANGE, never
wraparound; human-readable sizes parse / format as documented.

Oracle: an exact-arithmetic Python model of the DOCUMENTED language (property
statement + the comments in util/parsenum.h, util/humansize.h), not of the C
code: optional C-locale whitespace, optional sign, optional base prefix where
the base allows one, at least one digit of the base; trailing characters only
if allowed; value as an exact integer / rational; accepted iff
max(min, type_min) <= value <= min(max, type_max).  Strings whose reading is
not fixed by the documentation (C23 "0b" prefixes, "nan(...)", numerals out of
the normal floating range, decimals whose rounding straddles a bound, values
not exactly representable in a float target) are never generated as cases.

A string that is BOTH malformed through trailing characters and out of range
(e.g. "999999999999999999999x" with trailing characters not allowed) must
fail; the statement does not say which errno wins, so either EINVAL or ERANGE
is accepted there.

Runtime monitoring: the real macros/objects run under ASan+UBSan; strings,
target variables and outputs live in exact-size heap blocks.
"""
import bisect
import math
import random
import re
import struct
import zlib
from fractions import Fraction

from . import core

SRCS = ['util/humansize.c', 'util/asprintf.c', 'util/warnp.c']

IMIN, IMAX, UMAX = -2 ** 63, 2 ** 63 - 1, 2 ** 64 - 1

# LP64 (checked by the driver build: see assumptions).
ITYPES = {
    'i8': (-2 ** 7, 2 ** 7 - 1), 'i16': (-2 ** 15, 2 ** 15 - 1),
    'i32': (-2 ** 31, 2 ** 31 - 1), 'i64': (IMIN, IMAX),
    'int': (-2 ** 31, 2 ** 31 - 1), 'long': (IMIN, IMAX), 'imax': (IMIN, IMAX),
    'u8': (0, 2 ** 8 - 1), 'u16': (0, 2 ** 16 - 1), 'u32': (0, 2 ** 32 - 1),
    'u64': (0, UMAX), 'size': (0, UMAX), 'umax': (0, UMAX),
}
INT_NAMES = list(ITYPES)
FTYPES = ('flt', 'dbl')

WS = b' \t\n\v\f\r'
DIGS = '0123456789abcdefghijklmnopqrstuvwxyz'

DBL_MAX = Fraction(2 ** 1024 - 2 ** 971)
DBL_MIN = Fraction(1, 2 ** 1022)
FLT_MAX = Fraction(2 ** 128 - 2 ** 104)
FLT_MIN = Fraction(1, 2 ** 126)


def sig(*a):
    return zlib.crc32(repr(a).encode())


# --------------------------------------------------------------------------
# The documented language: integers
# --------------------------------------------------------------------------

def _dig(c):
    if 48 <= c <= 57:
        return c - 48
    if 97 <= c <= 122:
        return c - 87
    if 65 <= c <= 90:
        return c - 55
    return 99


def lex_int(s, base):
    """Longest numeral of `base` at the start of s (after whitespace).
    -> None: reading not fixed by the documentation (skip)
       'bad': no numeral
       (neg, magnitude, end_index)"""
    n = len(s)
    i = 0
    while i < n and s[i] in WS:
        i += 1
    neg = False
    if i < n and s[i] in b'+-':
        neg = s[i] == 0x2d
        i += 1
    b = base
    j = i
    if base in (0, 2) and s[j:j + 2].lower() == b'0b' and j + 2 < n and _dig(s[j + 2]) < 2:
        return None         # C23 binary prefix: libc-dependent
    if base in (0, 16) and s[j:j + 2].lower() == b'0x' and j + 2 < n and _dig(s[j + 2]) < 16:
        j += 2
        b = 16
    elif base == 0:
        b = 8 if s[j:j + 1] == b'0' else 10
    k = j
    val = 0
    while k < n and _dig(s[k]) < b:
        val = val * b + _dig(s[k])
        k += 1
    if k == j:
        return 'bad'
    return (neg, val, k)


def model_int(t, bk, mn, mx, base, trailing, s):
    """-> None | ('ok', value) | ('fail', frozenset of errno names)"""
    tmin, tmax = ITYPES[t]
    r = lex_int(s, base)
    if r is None:
        return None
    if r == 'bad':
        return ('fail', frozenset(['EINVAL']))
    neg, val, end = r
    v = -val if neg else val        # the mathematical value
    lo, hi = tmin, tmax
    if bk != 'N':
        lo = max(lo, mn)
        hi = min(hi, mx)
    inr = lo <= v <= hi
    if end < len(s) and not trailing:
        return ('fail', frozenset(['EINVAL']) if inr else frozenset(['EINVAL', 'ERANGE']))
    if inr:
        return ('ok', v)
    return ('fail', frozenset(['ERANGE']))


# --------------------------------------------------------------------------
# The documented language: floating point
# --------------------------------------------------------------------------

_HEXD = b'0123456789abcdef'
_DECD = b'0123456789'


def _run(t, j, alphabet):
    k = j
    while k < len(t) and t[k] in alphabet:
        k += 1
    return k


def _exponent(t, end, letter):
    """optional exponent part at t[end:]; -> (exp, newend)"""
    if t[end:end + 1] != letter:
        return 0, end
    k = end + 1
    if t[k:k + 1] in (b'+', b'-'):
        k += 1
    e = _run(t, k, _DECD)
    if e == k:
        return 0, end
    return int(t[end + 1:e]), e


def lex_float(s):
    """-> None (not fixed by the documentation / too large to bother)
       'bad'
       (neg, 'inf'|'nan'|Fraction, end_index)"""
    n = len(s)
    i = 0
    while i < n and s[i] in WS:
        i += 1
    neg = False
    if i < n and s[i] in b'+-':
        neg = s[i] == 0x2d
        i += 1
    t = s[i:].lower()
    if t.startswith(b'infinity'):
        return (neg, 'inf', i + 8)
    if t.startswith(b'inf'):
        return (neg, 'inf', i + 3)
    if t.startswith(b'nan'):
        if t[3:4] == b'(':
            return None         # n-char-sequence: implementation-defined
        return (neg, 'nan', i + 3)
    if t.startswith(b'0x'):
        j = _run(t, 2, _HEXD)
        ip = t[2:j]
        fr = b''
        end = j
        if t[j:j + 1] == b'.':
            k = _run(t, j + 1, _HEXD)
            fr = t[j + 1:k]
            end = k
        if ip or fr:
            exp, end = _exponent(t, end, b'p')
            if abs(exp) > 3000:
                return None
            q = Fraction(int((ip + fr) or b'0', 16), 16 ** len(fr))
            q = q * (Fraction(2) ** exp)
            return (neg, q, i + end)
        # "0x" without hex digits: the numeral is "0"
    j = _run(t, 0, _DECD)
    ip = t[:j]
    fr = b''
    end = j
    if t[j:j + 1] == b'.':
        k = _run(t, j + 1, _DECD)
        fr = t[j + 1:k]
        end = k
    if not (ip or fr):
        return 'bad'
    exp, end = _exponent(t, end, b'e')
    if abs(exp) > 1000:
        return None
    q = Fraction(int((ip + fr) or b'0'), 10 ** len(fr)) * (Fraction(10) ** exp)
    return (neg, q, i + end)


def f32_exact(d):
    try:
        return struct.unpack('>f', struct.pack('>f', d))[0] == d
    except OverflowError:
        return False


def model_float(t, bk, mn, mx, trailing, s):
    """mn/mx: Python floats (may be +-inf) or ints.
    -> None | ('ok', float) | ('ok', 'nan') | ('fail', errnos)"""
    r = lex_float(s)
    if r is None:
        return None
    if r == 'bad':
        return ('fail', frozenset(['EINVAL']))
    neg, q, end = r
    if bk == 'N':
        mn, mx = -math.inf, math.inf
    if q == 'nan':
        inr = True                  # NaN passes any bounds
        val = 'nan'
    elif q == 'inf':
        val = -math.inf if neg else math.inf
        inr = mn <= val <= mx
    else:
        if neg:
            q = -q
        if q != 0:
            if not (DBL_MIN <= abs(q) <= DBL_MAX):
                return None         # outside the normal range
            if t == 'flt' and not (FLT_MIN <= abs(q) <= FLT_MAX):
                return None
        d = q.numerator / q.denominator     # correctly rounded (CPython)
        if q == 0 and neg:
            d = -0.0
        if t == 'flt' and not (Fraction(d) == q and f32_exact(d)):
            return None             # float targets: exactly representable only
        inr = mn <= q <= mx         # exact comparison
        if inr != (mn <= d <= mx):
            return None             # rounding straddles a bound
        val = d
    if end < len(s) and not trailing:
        return ('fail', frozenset(['EINVAL']) if inr else frozenset(['EINVAL', 'ERANGE']))
    if inr:
        return ('ok', val)
    return ('fail', frozenset(['ERANGE']))


# --------------------------------------------------------------------------
# humansize: documented language and documented output format
# --------------------------------------------------------------------------

_HS_RE = re.compile(rb'([0-9]+) ?([kMGTPE]?)B?')
_HS_K = {b'': 0, b'k': 1, b'M': 2, b'G': 3, b'T': 4, b'P': 5, b'E': 6}


def model_hparse(s):
    m = _HS_RE.fullmatch(s)
    if m is None:
        return None
    v = int(m.group(1)) * 1000 ** _HS_K[m.group(2)]
    return v if v <= UMAX else None


def hs_table():
    """Every value that has a string of the documented form:
    "<N> B" 0 <= N <= 999;  "<X> <p>B" with X = 1.0 .. 9.9 or 10 .. 999."""
    tab = [(n, '%d B' % n) for n in range(1000)]
    for k, p in enumerate('kMGTPE', 1):
        unit = 1000 ** k
        for x10 in range(10, 100):
            tab.append((x10 * unit // 10, '%d.%d %sB' % (x10 // 10, x10 % 10, p)))
        for x in range(10, 1000):
            tab.append((x * unit, '%d %sB' % (x, p)))
    tab.sort()
    assert len(set(v for v, _ in tab)) == len(tab)
    return tab


_HS_TAB = hs_table()
_HS_VALS = [v for v, _ in _HS_TAB]


def model_hformat(v):
    return _HS_TAB[bisect.bisect_right(_HS_VALS, v) - 1][1]


# --------------------------------------------------------------------------
# Lines <-> expectations
# --------------------------------------------------------------------------

def bits_of(d):
    return struct.pack('>d', d).hex()


def dbl_of(bits):
    return struct.unpack('>d', bytes.fromhex(bits))[0]


def expect_of_line(line):
    """The model's verdict for a case line (None = not a legitimate case)."""
    tk = line.split()
    if tk[0] == 'N':
        t, form, smin, smax, base, trailing, sh = tk[1:8]
        bk = form[1:]
        s = core.unhx(sh)
        base, trailing = int(base), int(trailing)
        if bk == 'N':
            mn = mx = None
        elif bk == 'DD':
            mn, mx = dbl_of(smin), dbl_of(smax)
        else:
            mn, mx = int(smin), int(smax)
        if t in FTYPES:
            return model_float(t, bk, mn, mx, trailing, s)
        return model_int(t, bk, mn, mx, base, trailing, s)
    if tk[0] == 'HP':
        v = model_hparse(core.unhx(tk[1]))
        return ('ok', v) if v is not None else ('fail', None)
    if tk[0] == 'HF':
        return ('str', model_hformat(int(tk[1])))
    raise ValueError(line)


def judge(c, ans):
    e = expect_of_line(c['line'])
    if e is None:
        return None
    key = 'oracle:' + c['kind']
    tk = c['line'].split()
    a = ans.split()
    if tk[0] == 'N':
        if len(a) != 3:
            return (key, 'unparsable answer %r' % ans)
        rc, en, val = a
        shown = 'string %r' % core.unhx(tk[7])
        if e[0] == 'ok':
            want = e[1]
            if rc != '0' or en != '0':
                return (key, '%s: documented result is success with value %r; got rc=%s errno=%s'
                        % (shown, want, rc, en))
            if tk[1] in FTYPES:
                if tk[1] == 'flt':
                    got = struct.unpack('>f', bytes.fromhex(val))[0]
                else:
                    got = dbl_of(val)
                if want == 'nan':
                    ok = got != got
                else:
                    ok = (got == want and math.copysign(1, got) == math.copysign(1, want))
                if not ok:
                    return (key, '%s: value must be %r, stored %r (bits %s)' % (shown, want, got, val))
            elif val != str(want):
                return (key, '%s: value must be %d, stored %s' % (shown, want, val))
            return None
        if rc == '0':
            return (key, '%s: must fail with %s; succeeded with value %s'
                    % (shown, '/'.join(sorted(e[1])), val))
        if en not in e[1]:
            return (key, '%s: must fail with %s; errno=%s' % (shown, '/'.join(sorted(e[1])), en))
        return None
    if tk[0] == 'HP':
        shown = 'string %r' % core.unhx(tk[1])
        if len(a) != 2:
            return (key, 'unparsable answer %r' % ans)
        if e[0] == 'ok':
            if a[0] != '0' or a[1] != str(e[1]):
                return (key, '%s: is in the language, value %d; got rc=%s size=%s'
                        % (shown, e[1], a[0], a[1]))
            return None
        if a[0] == '0':
            return (key, '%s: not in the language / overflows; accepted with size=%s' % (shown, a[1]))
        return None
    if tk[0] == 'HF':
        got = None if ans == 'NULL' else core.unhx(ans).decode('latin-1')
        if got != e[1]:
            return (key, 'humansize(%s) must be %r (largest representable value not above the '
                    'input); got %r' % (tk[1], e[1], got))
        return None
    return (key, 'bad line')


# --------------------------------------------------------------------------
# Generators
# --------------------------------------------------------------------------

def render_int(rnd, mag, radix, upper=None):
    if mag == 0:
        return '0'
    out = []
    while mag:
        mag, r = divmod(mag, radix)
        ch = DIGS[r]
        if upper is None:
            if rnd.random() < 0.3:
                ch = ch.upper()
        elif upper:
            ch = ch.upper()
        out.append(ch)
    return ''.join(reversed(out))


JUNK = [b' ', b'x', b'z', b'.', b'.5', b'e5', b',', b'\t, 34', b' 3', b'+', b'-', b'g', b'_',
        b'\x80', b'\xff', b'k', b'0x', b'\n', b'B', b'(', b'p1', b'\x01', b'/', b':', b'@', b'`', b'{']
WSP = [b' ', b'\t', b'\n', b'\v', b'\f', b'\r', b'  ', b' \t\r\n', b'\n\n \f']
NOTWS = [b'\x1c', b'\x85', b'\xa0', b'\x08', b'\x0e', b'\x1f', b'_']


def mutate(rnd, s, base):
    """One malformation / near-member edit."""
    k = rnd.randrange(14)
    if k == 0:
        return b''
    if k == 1:
        return rnd.choice(WSP)
    if k == 2:
        return rnd.choice([b'+', b'-', b' -', b'\t+'])
    if k == 3:
        return rnd.choice([b'0x', b'0X', b'-0x', b'0xg', b'0x ', b'+0Xz', b'0x-1', b'0x+1', b' 0x'])
    if k == 4 and s:        # whitespace inside
        p = rnd.randrange(len(s) + 1)
        return s[:p] + rnd.choice(WSP) + s[p:]
    if k == 5:              # double sign
        return rnd.choice([b'+', b'-']) + s
    if k == 6 and s:        # delete a byte
        p = rnd.randrange(len(s))
        return s[:p] + s[p + 1:]
    if k == 7 and s:        # insert a digit that may be >= base
        p = rnd.randrange(len(s) + 1)
        b = base if base >= 2 else 10
        d = DIGS[min(35, rnd.choice([b, b - 1, b + 1, 9, 10, 15, 16, 35]))].encode()
        if rnd.random() < 0.5:
            d = d.upper()
        return s[:p] + d + s[p:]
    if k == 8:              # something that looks like whitespace but is not
        return rnd.choice(NOTWS) + s
    if k == 9:
        return s + rnd.choice(JUNK) + rnd.choice(JUNK)
    if k == 10:
        return rnd.choice(JUNK) + s
    if k == 11 and s:       # sign after whitespace after sign
        return rnd.choice([b'- ', b'+ ', b'-\t']) + s
    if k == 12:
        return s + rnd.choice(WSP)
    return s + rnd.choice(JUNK)


def i_bound_unsigned(rnd, tmax, kind):
    if kind == 'I':
        c = [IMIN, IMIN + 1, -tmax - 1, -tmax, -100, -2, -1, 0, 0, 1, 2, 100, tmax - 1, tmax,
             tmax, tmax + 1, IMAX - 1, IMAX, rnd.randrange(IMIN, IMAX + 1),
             rnd.randrange(-300, 301)]
        return max(IMIN, min(IMAX, rnd.choice(c)))
    c = [0, 0, 1, 2, 100, tmax - 1, tmax, tmax, tmax + 1, 2 ** 63 - 2, 2 ** 63 - 1, 2 ** 63,
         2 ** 63 + 1, UMAX - 1, UMAX, rnd.randrange(0, UMAX + 1), rnd.randrange(0, 301)]
    return max(0, min(UMAX, rnd.choice(c)))


def i_bound_signed(rnd, tmin, tmax):
    c = [tmin, tmin, tmin + 1, -100, -2, -1, 0, 1, 2, 100, tmax - 1, tmax, tmax,
         rnd.randrange(tmin, tmax + 1), rnd.randrange(-130, 131)]
    return max(tmin, min(tmax, rnd.choice(c)))


def int_text(rnd, v, base, style=None):
    """Render the integer v as a numeral a caller might write for `base`."""
    neg = v < 0
    mag = -v if neg else v
    radix = base
    pre = ''
    if base == 0:
        radix = rnd.choice([10, 10, 16, 8])
        if radix == 16:
            pre = rnd.choice(['0x', '0X'])
        elif radix == 8:
            pre = '0'
    elif base == 16 and rnd.random() < 0.4:
        pre = rnd.choice(['0x', '0X'])
    body = render_int(rnd, mag, radix)
    if rnd.random() < 0.12 and not (base == 0 and radix == 10):
        body = '0' * rnd.randrange(1, 30) + body
    sign = '-' if neg else rnd.choice(['', '', '', '+'])
    if mag == 0 and rnd.random() < 0.4:
        sign = '-'
    return (sign + pre + body).encode()


def mk_num_case(line, kind, relsig):
    e = expect_of_line(line)
    if e is None:
        return None
    outcome = e[0] if e[0] == 'ok' else '/'.join(sorted(e[1]))
    tk = line.split()
    s = sig(tk[1], tk[2], tk[5], tk[6], outcome, relsig)
    return {'line': line, 'expect': outcome, 'kind': kind, 'sig': s,
            'nt': relsig[0] != 'plain' or e[0] != 'ok', 'outcome': outcome}


def relation(v, lo, hi):
    if v < lo - 1:
        return 'below'
    if v == lo - 1:
        return 'lo-1'
    if v == lo:
        return 'lo'
    if v == hi:
        return 'hi'
    if v == hi + 1:
        return 'hi+1'
    if v > hi + 1:
        return 'above'
    return 'in'


def gen_int_case(rnd, t):
    tmin, tmax = ITYPES[t]
    signed = tmin < 0
    base = rnd.choice([0, 0, 10, 16, 8, 2, 36, rnd.randrange(2, 37)])
    trailing = 1 if rnd.random() < 0.3 else 0
    if signed:
        mn, mx = i_bound_signed(rnd, tmin, tmax), i_bound_signed(rnd, tmin, tmax)
        if rnd.random() < 0.7 and mn > mx:
            mn, mx = mx, mn
        bk = 'II'
        if mn >= 0 and mx >= 0:
            bk = rnd.choice(['II', 'UU', 'IU', 'UI'])
    else:
        bk = rnd.choice(['N', 'II', 'II', 'UU', 'UU', 'IU', 'UI'])
        if bk == 'N':
            mn = mx = None
        else:
            mn = i_bound_unsigned(rnd, tmax, bk[0])
            mx = i_bound_unsigned(rnd, tmax, bk[1])
            if rnd.random() < 0.5 and mn > mx and (bk[0] == bk[1]):
                mn, mx = mx, mn
    api = 'P' if (base == 0 and not trailing and rnd.random() < 0.5) else 'E'
    lo, hi = tmin, tmax
    if bk != 'N':
        lo, hi = max(lo, mn), min(hi, mx)
    pts = [0, tmin, tmax, lo, hi, 2 ** 63, 2 ** 64, -2 ** 63, -2 ** 64, 2 ** 64 + tmax,
           -2 ** 64 + tmax, -tmax, 2 ** 32, -2 ** 32, tmax + 1 + tmax]
    if bk != 'N':
        pts += [mn, mx, mn, mx]
    r = rnd.random()
    if r < 0.5:
        v = rnd.choice(pts) + rnd.choice([-2, -1, -1, 0, 0, 0, 1, 1, 2])
    elif r < 0.75 and lo <= hi:
        v = rnd.randrange(lo, hi + 1)
    else:
        v = rnd.getrandbits(rnd.choice([3, 7, 8, 15, 16, 31, 32, 63, 64, 65, 70, 100]))
        if rnd.random() < 0.4:
            v = -v
    s = int_text(rnd, v, base)
    shape = 'num'
    if rnd.random() < 0.2:
        s = rnd.choice(WSP) + s
        shape = 'ws'
    if rnd.random() < 0.25:
        s = mutate(rnd, s, base)
        shape = 'mut'
    if len(s) > 4000 or b'\0' in s:
        return None
    line = 'N %s %s%s %s %s %d %d %s' % (
        t, api, bk, '-' if mn is None else mn, '-' if mx is None else mx, base, trailing,
        core.hx(s))
    rel = relation(v, lo, hi)
    tag = 'plain' if (rel == 'in' and shape == 'num' and v >= 0) else 'edge'
    return mk_num_case(line, 'parsenum', (tag, rel, shape, v < 0, bk))


def systematic_int_cases(rnd, shard, nshards):
    """Every type x every base x values at the type limits."""
    out = []
    idx = 0
    for t in INT_NAMES:
        tmin, tmax = ITYPES[t]
        signed = tmin < 0
        vals = [tmin - 1, tmin, tmin + 1, -1, 0, 1, tmax - 1, tmax, tmax + 1, UMAX, UMAX + 1,
                -UMAX, -UMAX - 1, -(UMAX - tmax), IMAX + 1, IMIN - 1, -tmax, -(2 ** 64 - 50),
                2 ** 64 + tmax, 10 ** 25]
        for base in [0] + list(range(2, 37)):
            for v in vals:
                idx += 1
                if idx % nshards != shard:
                    continue
                forms = [('II', tmin, tmax)] if signed else \
                    [('N', None, None), ('II', rnd.choice([IMIN, -1, 0]), IMAX), ('UU', 0, UMAX),
                     ('IU', rnd.choice([-5, 0]), tmax)]
                for bk, mn, mx in forms:
                    trailing = 0
                    api = 'P' if (base == 0 and rnd.random() < 0.5) else 'E'
                    if base == 0:
                        s = ('-' if v < 0 else '') + rnd.choice(['', '0x', '0'])
                        radix = {'': 10, '0x': 16, '0': 8}[s.lstrip('-')]
                        s = (s + render_int(rnd, abs(v), radix)).encode()
                    else:
                        s = (('-' if v < 0 else '') + render_int(rnd, abs(v), base)).encode()
                    if v == 0 and rnd.random() < 0.5:
                        s = b'-' + s
                    line = 'N %s %s%s %s %s %d %d %s' % (
                        t, api, bk, '-' if mn is None else mn, '-' if mx is None else mx,
                        base, trailing, core.hx(s))
                    lo, hi = tmin, tmax
                    if mn is not None:
                        lo, hi = max(lo, mn), min(hi, mx)
                    c = mk_num_case(line, 'parsenum', ('edge', relation(v, lo, hi), 'sys', v < 0, bk))
                    if c is not None:
                        out.append(c)
    return out


# ---- floats ----

def dec_of_fraction(q):
    """Exact decimal expansion of a non-negative dyadic rational."""
    n, d = q.numerator, q.denominator
    k = d.bit_length() - 1      # d == 2**k
    assert d == 1 << k
    digits = str(n * 5 ** k)
    if k == 0:
        return digits
    digits = digits.rjust(k + 1, '0')
    return digits[:-k] + '.' + digits[-k:]


def shift_point(rnd, text):
    """Rewrite a decimal numeral with an exponent part (same value)."""
    if '.' in text:
        ip, fp = text.split('.')
    else:
        ip, fp = text, ''
    sh = rnd.randrange(-6, 7)
    digs = ip + fp
    pos = len(ip) + sh          # new point position within digs
    if pos < 0:
        digs = '0' * (-pos) + digs
        pos = 0
    if pos > len(digs):
        digs = digs + '0' * (pos - len(digs))
    ip2, fp2 = digs[:pos], digs[pos:]
    ip2 = ip2.lstrip('0') if rnd.random() < 0.7 else ip2
    body = ip2 + ('.' + fp2 if fp2 or rnd.random() < 0.2 else '')
    if body in ('', '.'):
        body = '0' + body
    e = -sh
    es = rnd.choice(['e', 'E']) + rnd.choice(['', '+'] if e >= 0 else ['']) + str(e)
    return body + es


def hex_text(rnd, m, e):
    """m * 2**e as a C99 hexadecimal floating numeral."""
    h = '%x' % m
    k = rnd.randrange(0, len(h) + 1)        # digits after the point
    if k:
        body = h[:-k] + '.' + h[-k:]
        e += 4 * k
    else:
        body = h + rnd.choice(['', '', '.'])
    if rnd.random() < 0.2:
        body = '0' * rnd.randrange(1, 4) + body
    if rnd.random() < 0.3:
        body = body.upper()
    if e == 0 and rnd.random() < 0.5:
        ex = ''
    else:
        ex = rnd.choice(['p', 'P']) + (rnd.choice(['', '+']) if e >= 0 else '') + str(e)
    return rnd.choice(['0x', '0X']) + body + ex


def gen_float_case(rnd, t):
    mb = 24 if t == 'flt' else 53
    style = rnd.choice(['dy-dec', 'dy-dec', 'dy-hex', 'dy-hex', 'dy-exp', 'special', 'int',
                        'decimal' if t == 'dbl' else 'dy-dec'])
    q = None
    if style.startswith('dy') or style == 'int':
        m = rnd.getrandbits(rnd.randrange(1, mb + 1))
        if rnd.random() < 0.2:
            m |= 1 << (mb - 1)      # full-width mantissa
        e = 0 if style == 'int' else rnd.randrange(-30, 50)
        if style == 'dy-hex' and rnd.random() < 0.3:
            e = rnd.randrange(-100, 100) if t == 'flt' else rnd.randrange(-900, 900)
        q = Fraction(m) * Fraction(2) ** e
        if style == 'dy-hex':
            text = hex_text(rnd, m, e)
        else:
            text = dec_of_fraction(q)
            if style == 'dy-exp':
                text = shift_point(rnd, text)
            elif rnd.random() < 0.1:
                text = text.lstrip('0') if '.' in text and text.startswith('0.') else text + '.'
                if text in ('', '.'):
                    text = '0.'
    elif style == 'decimal':
        nd = rnd.randrange(1, 21)
        digs = ''.join(rnd.choice('0123456789') for _ in range(nd))
        p = rnd.randrange(0, nd + 1)
        body = digs[:p] + ('.' + digs[p:] if p < nd else '')
        ex = rnd.choice([0, 0, rnd.randrange(-20, 21), rnd.randrange(-280, 281)])
        text = body + ('' if ex == 0 and rnd.random() < 0.7 else
                       rnd.choice('eE') + rnd.choice(['', '+'] if ex >= 0 else ['']) + str(ex))
        q = Fraction(int(digs), 10 ** (nd - p)) * Fraction(10) ** ex
    else:
        w = rnd.choice(['inf', 'infinity', 'nan', 'inf', 'infinity', 'nan', 'infinit', 'in',
                        'na', 'nanx', 'infinityy', 'nan '])
        text = ''.join(ch.upper() if rnd.random() < 0.5 else ch for ch in w)
        q = 'nan' if w.startswith('nan') else 'inf'
    sign = rnd.choice(['', '', '+', '-', '-'])
    s = (sign + text).encode()
    shape = 'num'
    if rnd.random() < 0.2:
        s = rnd.choice(WSP) + s
        shape = 'ws'
    if rnd.random() < 0.22:
        s = mutate(rnd, s, 10)
        shape = 'mut'
    if b'\0' in s:
        return None
    trailing = 1 if rnd.random() < 0.3 else 0
    api = 'P' if (not trailing and rnd.random() < 0.5) else 'E'
    bk = rnd.choice(['N', 'DD', 'DD', 'DD', 'II', 'UU', 'IU', 'UI'])
    if isinstance(q, Fraction):
        if sign == '-':
            q = -q
        try:
            d = q.numerator / q.denominator
        except OverflowError:
            d = math.inf
    elif q == 'inf':
        d = -math.inf if sign == '-' else math.inf
    else:
        d = 0.0
    mn = mx = None
    if bk == 'DD':
        def pick():
            if math.isinf(d):
                c = [math.inf, -math.inf, 0.0, 1.7976931348623157e308, -1.7976931348623157e308,
                     1000.0]
            else:
                c = [d, d, math.nextafter(d, math.inf), math.nextafter(d, -math.inf), -d, 0.0,
                     -0.0, math.inf, -math.inf, 1000.0, -1000.0, d + 1, d - 1,
                     float(rnd.randrange(-2000, 2000)) / 8]
            return rnd.choice(c)
        mn, mx = pick(), pick()
        if rnd.random() < 0.6 and mn > mx:
            mn, mx = mx, mn
        smin, smax = bits_of(mn), bits_of(mx)
    elif bk != 'N':
        if math.isinf(d) or abs(d) > 2 ** 52:
            fl = rnd.randrange(-1000, 1000)
        else:
            fl = math.floor(d)

        def pick(kind):
            c = [fl, fl, fl + 1, fl - 1, 0, 1000, -1000, 2 ** 53, -2 ** 53, rnd.randrange(-100, 100)]
            v = rnd.choice(c)
            v = max(-2 ** 53, min(2 ** 53, v))
            return max(0, v) if kind == 'U' else v
        mn, mx = pick(bk[0]), pick(bk[1])
        if rnd.random() < 0.6 and mn > mx and bk[0] == bk[1]:
            mn, mx = mx, mn
        smin, smax = str(mn), str(mx)
    else:
        smin = smax = '-'
    line = 'N %s %s%s %s %s 0 %d %s' % (t, api, bk, smin, smax, trailing, core.hx(s))
    if bk == 'N' or q == 'nan':
        rel = 'in'
    elif d == mn or d == mx:
        rel = 'at-bound'
    elif mn <= d <= mx:
        rel = 'in'
    else:
        rel = 'out'
    tag = 'plain' if (rel == 'in' and shape == 'num' and style in ('int', 'dy-dec')) else 'edge'
    return mk_num_case(line, 'parsenum-float', (tag, rel, shape, style, sign, bk))


# ---- humansize ----

def gen_hparse_case(rnd):
    k = rnd.randrange(7)
    unit = 1000 ** k
    lim = UMAX // unit
    r = rnd.random()
    if r < 0.45:
        n = lim + rnd.choice([-2, -1, 0, 0, 1, 1, 2, 10])
    elif r < 0.6:
        n = rnd.choice([0, 1, 9, 10, 999, 1000, UMAX, UMAX + 1, UMAX - 1, UMAX // 10,
                        UMAX // 10 + 1, (UMAX // 10) * 10, 10 ** 19, 10 ** 20 - 1, 2 * 10 ** 19])
    elif r < 0.75:
        n = int(''.join(rnd.choice('0123456789') for _ in range(rnd.randrange(1, 26))))
    else:
        n = rnd.getrandbits(rnd.choice([4, 10, 20, 40, 63, 64, 65]))
    n = max(0, n)
    digs = str(n)
    if rnd.random() < 0.15:
        digs = '0' * rnd.randrange(1, 8) + digs
    p = ' kMGTPE'[k].strip()
    s = digs + rnd.choice(['', ' ']) + p + rnd.choice(['', 'B'])
    shape = 'member'
    if rnd.random() < 0.35:
        shape = 'near'
        m = rnd.randrange(16)
        if m == 0:
            s = digs + '  ' + p + 'B'
        elif m == 1:
            s = digs + ' ' + p + 'BB'
        elif m == 2:
            s = s.lower() if rnd.random() < 0.5 else s.upper()
        elif m == 3:
            s = rnd.choice('+-') + s
        elif m == 4:
            s = ''
        elif m == 5:
            s = rnd.choice([' ', '\t', '\n']) + s
        elif m == 6:
            s = s + rnd.choice([' ', '\t', '\n', 'b', 'i', 'iB'])
        elif m == 7:
            s = digs + p + ' B'
        elif m == 8:
            s = digs + ' ' + p + p + 'B'
        elif m == 9:
            s = rnd.choice([' ', 'k', 'B', 'kB', ' B', ' k'])
        elif m == 10:
            s = digs + rnd.choice(['K', 'm', 'g', 't', 'p', 'e', 'Z', 'Y', 'b', '.', '.5k', ',', 'x'])
        elif m == 11:
            s = digs + '\t' + p + 'B'
        elif m == 12:
            s = digs + ' ' + rnd.choice(['', 'B', 'k', 'kB', 'E', 'EB']) + ' '
        elif m == 13:
            s = digs + 'B' + p
        elif m == 14 and s:
            q = rnd.randrange(len(s))
            s = s[:q] + rnd.choice(['/', ':', ' ', 'k', 'B', '\x80', '0']) + s[q:]
        else:
            s = digs + ' ' + 'B' + ' '
    bs = s.encode('latin-1')
    line = 'HP %s' % core.hx(bs)
    e = expect_of_line(line)
    v = n * unit
    rel = 'fits' if v <= UMAX else 'overflow'
    near = abs(n - lim) <= 2
    return {'line': line, 'expect': e[0], 'kind': 'humansize_parse',
            'sig': sig('HP', k, shape, e[0], rel, near, len(digs) > 20, s[-1:] == 'B'),
            'nt': True, 'outcome': e[0]}


def hformat_cases(rnd, shard, nshards, nrandom):
    out = []
    for i, (v, text) in enumerate(_HS_TAB):
        if i % nshards != shard:
            continue
        for x in (v - 1, v, v + 1):
            if 0 <= x <= UMAX:
                out.append({'line': 'HF %d' % x, 'expect': model_hformat(x), 'kind': 'humansize',
                            'sig': sig('HF', i, x - v), 'nt': True, 'outcome': 'fmt'})
    for _ in range(nrandom):
        x = rnd.choice([rnd.getrandbits(64), rnd.getrandbits(rnd.randrange(1, 65)),
                        10 ** rnd.randrange(0, 20) + rnd.randrange(-3, 4),
                        rnd.choice([0, UMAX, UMAX - 1, 2 ** 63, 2 ** 32])])
        x = max(0, min(UMAX, x))
        out.append({'line': 'HF %d' % x, 'expect': model_hformat(x), 'kind': 'humansize',
                    'sig': sig('HFr', len(str(x)), str(x)[:3]), 'nt': True, 'outcome': 'fmt'})
    # The same calls made by a program whose floating-point rounding mode is not
    # the default one (fesetround: 1 upward, 2 downward, 3 toward zero): the form
    # is defined on integers, so the answer must not change.
    for c in list(out):
        if rnd.random() < 0.5:
            m = rnd.choice([1, 2, 3])
            d = dict(c)
            d['line'] = c['line'] + ' %d' % m
            d['sig'] = sig('HFm', m, c['sig'])
            out.append(d)
    return out


# --------------------------------------------------------------------------
# Running
# --------------------------------------------------------------------------

def run_batch(exe, cases, acc):
    r = core.line_shard(exe, cases, judge=judge)
    acc['evals'] += r['evals']
    acc['sigs'] |= r['sigs']
    acc['alarms'] += r['alarms'][:40]
    st = acc['stats']
    for c in cases:
        k = 'n_%s_%s' % (c['kind'], c['outcome'].replace('/', '_or_'))
        st[k] = st.get(k, 0) + 1


def _shard(a):
    exe, seed, tier, i, n, nint, nflt, nhp, nhf = a
    rnd = random.Random(seed)
    acc = {'evals': 0, 'sigs': set(), 'alarms': [], 'stats': {}, 'samples': []}
    # systematic parts
    cases = systematic_int_cases(rnd, i, n)
    cases += hformat_cases(rnd, i, n, nhf)
    acc['samples'] = [c['line'] for c in cases[:1]]
    run_batch(exe, cases, acc)
    skipped = 0
    # random parts, in batches (bounded memory)
    plan = [('int', nint), ('flt', nflt), ('hp', nhp)]
    for what, total in plan:
        done = 0
        while done < total:
            m = min(40000, total - done)
            cases = []
            for _ in range(m):
                if what == 'int':
                    c = gen_int_case(rnd, rnd.choice(INT_NAMES))
                elif what == 'flt':
                    c = gen_float_case(rnd, rnd.choice(FTYPES))
                else:
                    c = gen_hparse_case(rnd)
                if c is None:
                    skipped += 1
                else:
                    cases.append(c)
            done += m
            if len(acc['samples']) < 4 and cases:
                acc['samples'].append(cases[0]['line'])
            run_batch(exe, cases, acc)
    acc['stats']['generated_but_not_fixed_by_documentation_skipped'] = skipped
    return acc


def _selftest():
    """The model against expectations spelled out in the repository's own
    suite (tests/parsenum/main.c, tests/humansize/main.c) and the header."""
    def mi(t, s, mn, mx, base=0, tr=0, bk='II'):
        return model_int(t, bk, mn, mx, base, tr, s)
    assert mi('size', b'1234', -123, 4000) == ('ok', 1234)
    assert mi('size', b'7f', 0, 1000)[0] == 'fail'
    assert mi('size', b'0x7f', 0, 1000) == ('ok', 127)
    assert mi('size', b'077', 0, 1000) == ('ok', 63)
    assert mi('size', b'-50', -100, 0) == ('fail', frozenset(['ERANGE']))
    assert mi('size', b'0', -200, -100) == ('fail', frozenset(['ERANGE']))
    assert mi('u32', b'0x100000000', 0, 0x100000000) == ('fail', frozenset(['ERANGE']))
    assert mi('int', b'-0X7fffFFFF', -2 ** 31, 0) == ('ok', -2 ** 31 + 1)
    assert mi('i32', b'-0x80000000', -2 ** 31, 0) == ('ok', -2 ** 31)
    assert mi('u32', b'-1', None, None, bk='N') == ('fail', frozenset(['ERANGE']))
    assert mi('u32', b'-0', None, None, bk='N') == ('ok', 0)
    assert mi('size', b'ga', None, None, base=17, bk='N') == ('ok', 282)
    assert mi('size', b'12", 34', None, None, tr=1, bk='N') == ('ok', 12)
    assert mi('size', b'12", 34', None, None, tr=0, bk='N') == ('fail', frozenset(['EINVAL']))
    assert mi('u8', b'999999999999999999999x', None, None, bk='N') == \
        ('fail', frozenset(['EINVAL', 'ERANGE']))

    def mf(t, s, mn, mx, tr=0):
        return model_float(t, 'DD', mn, mx, tr, s)
    assert mf('dbl', b'123.456', 0.0, 1000.0) == ('ok', 123.456)
    assert mf('dbl', b'nAn', 0.0, 0.0) == ('ok', 'nan')
    assert mf('dbl', b'-InFiNitY', -math.inf, 0.0) == ('ok', -math.inf)
    assert mf('dbl', b'7f', 0.0, 1000.0) == ('fail', frozenset(['EINVAL']))
    assert mf('flt', b'0X7f', 0.0, 1000.0) == ('ok', 127.0)
    assert mf('dbl', b'1e-2', 0.0, 1000.0) == ('ok', 0.01)
    assert mf('flt', b'1e-2', 0.0, 1000.0) is None
    assert mf('flt', b'11\t ', 0.0, 12.0, 1) == ('ok', 11.0)
    assert mf('flt', b'11\t ', 0.0, 12.0, 0) == ('fail', frozenset(['EINVAL']))
    r = mf('dbl', b'-0', 0.0, 0.0)
    assert r[0] == 'ok' and math.copysign(1, r[1]) < 0
    rnd = random.Random(3)
    for _ in range(300):
        txt = '%d.%de%d' % (rnd.randrange(10 ** 9), rnd.randrange(10 ** 9), rnd.randrange(-200, 200))
        r = model_float('dbl', 'N', None, None, 0, txt.encode())
        assert r == ('ok', float(txt)), txt
    assert model_hparse(b'1234G') == 1234 * 10 ** 9 and model_hparse(b'10 EB') == 10 ** 19
    assert model_hparse(b'100 EB') is None and model_hparse(b'1  EB') is None
    assert model_hparse(b'1 BB') is None and model_hparse(b'') is None
    assert model_hparse(b'0 E') == 0
    assert model_hformat(1234 * 10 ** 9) == '1.2 TB' and model_hformat(10 ** 19) == '10 EB'
    assert model_hformat(0) == '0 B' and model_hformat(999) == '999 B'
    assert model_hformat(UMAX) == '18 EB' and model_hformat(999999) == '999 kB'


def build(ctx):
    objs = ctx.builder.lib('asan', SRCS)
    return ctx.builder.driver('c16', 'asan', ['c16_num.c'], objs, libs=('-lm',))


def run(ctx):
    _selftest()
    exe = build(ctx)
    n = core.NCPU
    seeds = core.shard_seeds(ctx.seed, 'C16', n)
    per = lambda q, t: max(1, ctx.n(q, t) // n)
    args = [(exe, seeds[i], ctx.tier, i, n, per(520000, 9600000), per(240000, 4800000),
             per(100000, 1600000), per(8000, 200000)) for i in range(n)]
    res = core.pmap(_shard, args)
    core.merge(ctx, res)
    for r in res[:4]:
        for s in r['samples'][:2]:
            ctx.add_sample(s[:200])
    ctx.cov['rule'] = (
        'case = (target type, PARSENUM|PARSENUM_EX, bounds kind none/intmax_t/uintmax_t/mixed/double, '
        'min, max, base, trailing, string).  Systematic: every integer type x base 0,2..36 x values at '
        'type_min-1..type_max+1, 0, -0, +-2^64, +-(2^64-1), 2^63 x forms; random: values within 2 of '
        'the bounds / type limits / 2^63 / 2^64 (+- and wrapped images), random magnitudes to 2^100, '
        'prefixes, leading zeros, six kinds of whitespace, 14 malformation edits; floats: dyadic '
        'values (<= 24/53 bits) written as exact decimals, decimals with exponent, hex floats, '
        'arbitrary decimals for double, inf/infinity/nan in any case, bounds at the value +-1ulp. '
        'humansize_parse: members and near-members around 2^64/1000^k; humansize: every '
        'representable output value v (7 units) at v-1, v, v+1 plus random. '
        'non-trivial = not a plain in-range non-negative numeral; distinct = distinct (type, form, '
        'base, trailing, outcome, position relative to the effective bounds, string shape) signatures')
    ctx.cov['sanitizers'] = 'gcc -fsanitize=address,undefined; strings, targets, outputs in exact-size heap blocks'
    ctx.assumptions += [
        'LP64: int is 32 bits, long/size_t/intmax_t are 64 bits',
        'strings the documentation does not decide are not cases: C23 0b prefixes, nan(...), '
        'floating numerals outside the normal range, decimals whose rounding straddles a bound, '
        'values not exactly representable in a float target',
        'a string both malformed by trailing characters and out of range may fail with either errno',
        'correct rounding of decimal numerals into double is judged by exact rational arithmetic '
        '(CPython integer true division), i.e. IEEE round-to-nearest-even',
        'signed targets only receive bounds inside the target type; bounds given to floating '
        'targets as integers stay within +-2^53',
    ]


def replay(ctx, case):
    _selftest()
    exe = build(ctx)
    c = dict(case)
    c.setdefault('kind', 'parsenum')
    r = core.line_shard(exe, [c], judge=judge)
    core.merge(ctx, [r])

"""C03 - every CPU-accelerated code path computes the same function as the portable one.

Method: the alg/ and crypto/ objects are built in every compile-time subset
of {SHANI+SSSE3, SSE2, SSE42 (32-bit / with SSE42_64), AESNI} and, for the
compiled-in features, with the run-time detector replaced by one that answers
"absent" (harness/c03_detect_stub.c is linked instead of
cpusupport/cpusupport_x86_<feat>.c).  Every variant executes the same seeded
workload; the answers are compared with the references (hashlib / hmac, the
CRC32C algebra of vlib/c01.py, harness/common/refaes.c) and with each other,
line by line.  `-Wl,--wrap=` counters on the accelerated entry points (and on
OpenSSL's AES_encrypt / AES_set_encrypt_key, the portable AES) prove which
implementation executed in each variant: a variant whose intended path did not
run, or whose forbidden path did, makes the check inconclusive.  A "Disabling
HW_... due to failed self-test" warning (captured by wrapping
libcperciva_warnx) is a violation: the accelerated path computed a different
function on the library's own self-test vector.

Far-offset AES-CTR streams (`F` lines): the stream is moved to block 2^e - d
(e = 8, 16, ..., 56) with the hook crypto_aesctr_verif_seek that
crypto/crypto_aesctr.c provides under LIBCPERCIVA_VERIF, then bulk, sub-block
and 0-length calls cross block 2^e; generator shared with vlib/c02.py
(far_stream), reference = refaes at the absolute block index.  Every variant
runs them, so the AES-NI bulk counter arithmetic and the portable byte-wise
carry are compared where the carry reaches the upper counter bytes.

"Self-test fails" variants (driver flag --fail-selftest=<impl>,...): the CPU
reports the feature, the library is linked unchanged, but the library's own
start-up self-test of that implementation fails (the --wrap wrapper of the
accelerated entry point answers the self-test call wrongly, once; see
harness/c03_accel.c).  There the warning is expected; the outputs must still
equal the references and the other variants, and the wrappers must not see a
single call of the disabled implementation afterwards, from any operation
(AES-CTR included): otherwise `fallback-inconsistent:<impl>` is reported.

"Faulty AES-NI" variants (driver flag --fault=aesni-kx256 | aesni-kx128 |
aesni-blk256): the AES-NI implementation is PERSISTENTLY wrong for one key size
only (every 32-byte / every 16-byte key gets one wrong round-key bit; every
block encrypted under a 14-round key gets one wrong bit), as on a CPU or
emulator whose AES instructions misbehave for that key size.  The library's
self-test has one vector per key size, so it has to notice either fault; the
variants are judged exactly like the "self-test fails" ones (warning expected,
every answer equal to the references and to all other variants, no AES-NI call
after the warning).

Allocation-failure histories (driver mode `oomhist`, harness/common/
aes_oomhist.[ch], shared with vlib/c02.py): which AES implementation a process
uses is decided once, and the two implementations have different expanded-key
formats.  For every history of OOM_SPECS and k = 1..N one FRESH process runs
the history with the k-th allocation attempt of the library failing once
(N = attempts of a fault-free run), in AES-NI variants and in portable ones.
A failure that hits the start-up self-test settles the choice (software) for
the process: every value produced afterwards must equal refaes, nothing may
crash, and an AES-NI entry point called after the "Disabling HW_X86_AESNI"
warning is `fallback-inconsistent:aesni`.
"""
import hashlib
import hmac
import os
import random
import re
import threading
import zlib

from . import core
from .c01 import crc_expected, crc_remainder, huge_value
from .c02 import FAR_DS, FAR_EXPS, FAR_KINDS, far_items, far_stream
from .c02 import OOM_ANS, OOM_SPECS

SRCS = ['alg/sha256.c', 'alg/sha256_shani.c', 'alg/sha256_sse2.c',
        'alg/crc32c.c', 'alg/crc32c_sse42.c',
        'crypto/crypto_aes.c', 'crypto/crypto_aes_aesni.c',
        'crypto/crypto_aesctr.c', 'crypto/crypto_aesctr_aesni.c',
        'util/insecure_memzero.c', 'util/warnp.c']
DETECTORS = ['aesni', 'shani', 'sse2', 'sse42', 'ssse3']
HOSTFLAG = {'aesni': 'aes', 'shani': 'sha_ni', 'sse2': 'sse2', 'sse42': 'sse4_2',
            'ssse3': 'ssse3'}
BASE = ['X86_CPUID', 'X86_CPUID_COUNT']
FULL = BASE + ['X86_SHANI', 'X86_SSSE3', 'X86_SSE2', 'X86_SSE42', 'X86_SSE42_64', 'X86_AESNI']
M64 = (1 << 64) - 1
IMPLS = ['shani', 'sse2', 'sse42', 'aesni']
# name in the library's "Disabling HW_... due to failed self-test" warning
HWNAME = {'shani': 'HW_X86_SHANI', 'sse2': 'HW_X86_SSE2', 'sse42': 'HW_X86_CRC32',
          'aesni': 'HW_X86_AESNI'}
IMPL_OF_HW = {v: k for k, v in HWNAME.items()}
ENTRY = {'shani': 'SHA256_Transform_shani', 'sse2': 'SHA256_Transform_sse2',
         'sse42': 'CRC32C_Update_SSE42',
         'aesni': 'crypto_aes_key_expand_aesni / crypto_aes_encrypt_block_aesni / '
                  'crypto_aesctr_aesni_stream'}
COUNTERS = ['shani', 'sse2', 'sse42', 'aesni_kx', 'aesni_blk', 'aesni_ctr', 'ossl_key',
            'ossl_enc', 'stub_detect', 'sse42_short', 'warnings'] + \
    ['inj_' + i for i in IMPLS] + ['after_' + i for i in IMPLS]
AES_FAULTS = ['aesni-kx256', 'aesni-kx128', 'aesni-blk256']
# executables (by variant name) that run the allocation-failure histories
OOM_VARIANTS = ['build[shani+sse2+sse42_64+aesni]', 'build[aesni]', 'full-absent[aesni]',
                'build[none]']
MARKER = re.compile(r'C03-USED-AFTER-DISABLE((?: [a-z0-9]+:\w+)+) disabled=(\S+)')


def sig(*a):
    return zlib.crc32(repr(a).encode())


def rbytes(rnd, n):
    return rnd.getrandbits(8 * n).to_bytes(n, 'little') if n else b''


def host_flags():
    try:
        for l in open('/proc/cpuinfo'):
            if l.startswith('flags'):
                return set(l.split(':', 1)[1].split())
    except OSError:
        pass
    return set()


# ---- variants -----------------------------------------------------------------
def expected_paths(cpu, stubs, host, fails=()):
    """What the library must select.  `fails` = implementations whose
    start-up self-test fails although the CPU reports them; 'failed' in the
    result = those of them whose self-test the library actually reaches."""
    def present(feat):
        if feat in stubs:
            return False
        gate = 'X86_CPUID_COUNT' if feat == 'shani' else 'X86_CPUID'
        return gate in cpu and HOSTFLAG[feat] in host
    failed = []

    def passes(impl):
        if impl in fails:
            failed.append(impl)
            return False
        return True
    if 'X86_SHANI' in cpu and 'X86_SSSE3' in cpu and present('shani') and present('ssse3') \
            and passes('shani'):
        sha = 'shani'
    elif 'X86_SSE2' in cpu and present('sse2') and passes('sse2'):
        sha = 'sse2'
    else:
        sha = 'soft'
    if 'X86_SSE42' in cpu and present('sse42') and passes('sse42'):
        crc = 'sse42-64' if 'X86_SSE42_64' in cpu else 'sse42-32'
    else:
        crc = 'soft'
    aes = 'aesni' if 'X86_AESNI' in cpu and present('aesni') and passes('aesni') else 'soft'
    return {'sha': sha, 'crc': crc, 'aes': aes, 'failed': failed}


def all_variants(host):
    """-> (variants, skipped).  variant = dict(name, cpu, stubs, expect)."""
    out = []

    def add(name, cpu, stubs=(), fails=(), faults=(), cdefs=()):
        # faults: persistent partial faults of the AES-NI implementation
        # (--fault=...); the self-test of 'aesni' must fail because of them
        # cdefs: extra compile-time defines of the library objects
        out.append({'name': name, 'cpu': list(cpu), 'stubs': list(stubs), 'fails': list(fails),
                    'faults': list(faults), 'cdefs': list(cdefs),
                    'args': ['--fault=' + ','.join(faults)] if faults else
                            ['--fail-selftest=' + ','.join(fails)] if fails else [],
                    'expect': expected_paths(cpu, stubs, host, fails)})

    # (a) every compile-time subset
    for shani in (0, 1):
        for sse2 in (0, 1):
            for crc in ('', '32', '64'):
                for aes in (0, 1):
                    cpu = list(BASE)
                    nm = []
                    if shani:
                        cpu += ['X86_SHANI', 'X86_SSSE3']
                        nm.append('shani')
                    if sse2:
                        cpu.append('X86_SSE2')
                        nm.append('sse2')
                    if crc:
                        cpu.append('X86_SSE42')
                        if crc == '64':
                            cpu.append('X86_SSE42_64')
                        nm.append('sse42_' + crc)
                    if aes:
                        cpu.append('X86_AESNI')
                        nm.append('aesni')
                    add('build[' + ('+'.join(nm) or 'none') + ']', cpu)
    # SHANI needs SSSE3 at compile time too
    add('build[shani-without-ssse3+sse2]', BASE + ['X86_SHANI', 'X86_SSE2'])
    add('build[ssse3-without-shani]', BASE + ['X86_SSSE3'])
    # (b) compiled in, but the CPU says "absent"
    for stubs in (['shani'], ['ssse3'], ['shani', 'sse2'], ['ssse3', 'sse2'], ['sse2'], ['sse42'],
                  ['aesni'], ['shani', 'ssse3', 'sse2', 'sse42', 'aesni']):
        add('full-absent[' + '+'.join(stubs) + ']', FULL, stubs)
    add('build[shani]-absent[shani]', BASE + ['X86_SHANI', 'X86_SSSE3'], ['shani'])
    add('build[sse2]-absent[sse2]', BASE + ['X86_SSE2'], ['sse2'])
    add('build[sse42_32]-absent[sse42]', BASE + ['X86_SSE42'], ['sse42'])
    add('build[aesni]-absent[aesni]', BASE + ['X86_AESNI'], ['aesni'])
    # (b2) the AES-NI code as a compiler without _mm_loadu_si64 gets it (the
    # build system then adds -DBROKEN_MM_LOADU_SI64: another load sequence)
    add('full-loadu-workaround', FULL, cdefs=['BROKEN_MM_LOADU_SI64'])
    add('build[aesni]-loadu-workaround', BASE + ['X86_AESNI'], cdefs=['BROKEN_MM_LOADU_SI64'])
    # (c) the real detectors without CPUID support answer "absent" themselves
    add('full-without-cpuid', [c for c in FULL if c not in BASE])
    # (d) compiled in, the CPU says "present", but the library's own start-up
    # self-test of the implementation fails: it must fall back, consistently
    # for every operation (the executables are those of (a)/(b), started with
    # --fail-selftest=...)
    add('full-selftest-fails[aesni]', FULL, fails=['aesni'])
    add('full-selftest-fails[shani]', FULL, fails=['shani'])
    add('full-selftest-fails[shani+sse2]', FULL, fails=['shani', 'sse2'])
    add('full-selftest-fails[sse42]', FULL, fails=['sse42'])
    add('full-selftest-fails[shani+sse2+sse42+aesni]', FULL, fails=['shani', 'sse2', 'sse42', 'aesni'])
    add('full-absent[shani]-selftest-fails[sse2]', FULL, ['shani'], fails=['sse2'])
    add('build[shani]-selftest-fails[shani]', BASE + ['X86_SHANI', 'X86_SSSE3'], fails=['shani'])
    add('build[sse2]-selftest-fails[sse2]', BASE + ['X86_SSE2'], fails=['sse2'])
    add('build[sse42_32]-selftest-fails[sse42]', BASE + ['X86_SSE42'], fails=['sse42'])
    add('build[aesni]-selftest-fails[aesni]', BASE + ['X86_AESNI'], fails=['aesni'])
    # (e) compiled in, the CPU says "present", but the AES-NI implementation is
    # persistently wrong for ONE key size (all keys of that size, always): the
    # self-test has a vector per key size and must disable AES-NI
    for f in AES_FAULTS:
        add('full-faulty[%s]' % f, FULL, fails=['aesni'], faults=[f])
    add('build[aesni]-faulty[aesni-kx256]', BASE + ['X86_AESNI'], fails=['aesni'],
        faults=['aesni-kx256'])
    keep, skipped = [], []
    for v in out:
        need = set()
        if 'X86_SHANI' in v['cpu'] and 'X86_SSSE3' in v['cpu']:
            need |= {'shani', 'ssse3'}
        for c, f in (('X86_SSE2', 'sse2'), ('X86_SSE42', 'sse42'), ('X86_AESNI', 'aesni')):
            if c in v['cpu']:
                need.add(f)
        missing = sorted(f for f in need if HOSTFLAG[f] not in host)
        if missing:
            skipped.append('%s (host CPU lacks %s)' % (v['name'], ','.join(missing)))
        elif sorted(v['fails']) != sorted(v['expect']['failed']):
            skipped.append('%s (the self-test of %s would not be reached)' % (
                v['name'], ','.join(sorted(set(v['fails']) - set(v['expect']['failed'])))))
        else:
            keep.append(v)
    return keep, skipped


def wraps_for(cpu):
    w = ['AES_encrypt', 'AES_set_encrypt_key', 'libcperciva_warnx']
    if 'X86_SHANI' in cpu and 'X86_SSSE3' in cpu:
        w.append('SHA256_Transform_shani')
    if 'X86_SSE2' in cpu:
        w.append('SHA256_Transform_sse2')
    if 'X86_SSE42' in cpu:
        w.append('CRC32C_Update_SSE42')
    if 'X86_AESNI' in cpu:
        w += ['crypto_aes_key_expand_aesni', 'crypto_aes_encrypt_block_aesni',
              'crypto_aesctr_aesni_stream']
    return w


class ObjCache:
    """Compile each distinct translation unit once.  Two variants get the same
    object for a file exactly when the preprocessed token stream (gcc -E -P)
    and the compiler flags are identical, so every variant still consists of
    objects compiled from the repository sources under its own CPUSUPPORT_*
    configuration; only redundant compiler runs are saved."""

    def __init__(self, d):
        self.dir = d
        os.makedirs(d, exist_ok=True)
        self.lock = threading.Lock()
        self.map = {}
        self.compiled = 0
        self.requests = 0

    def obj(self, src, flags):
        r = core.sh(['gcc'] + flags + ['-E', '-P', src])
        if r.returncode != 0:
            raise core.Inconclusive('preprocess failed: %s\n%s' % (
                src, r.stderr.decode(errors='replace')[-2000:]))
        fl = [f for f in flags if not f.startswith('-DCPUSUPPORT_CONFIG_FILE=')]
        key = hashlib.sha1(r.stdout + b'\0' + ' '.join(fl).encode() + b'\0' +
                           os.path.basename(src).encode()).hexdigest()
        with self.lock:
            self.requests += 1
            ent = self.map.get(key)
            owner = ent is None
            if owner:
                ent = self.map[key] = {'ev': threading.Event(), 'err': None,
                                       'obj': os.path.join(self.dir, '%s-%s.o' % (
                                           os.path.basename(src)[:-2], key[:12]))}
                self.compiled += 1
        if owner:
            try:
                c = core.sh(['gcc'] + flags + ['-c', src, '-o', ent['obj']])
                if c.returncode != 0:
                    ent['err'] = 'compile failed: %s\n%s' % (
                        src, c.stderr.decode(errors='replace')[-3000:])
            except Exception as e:      # noqa: BLE001
                ent['err'] = 'compile failed: %s: %r' % (src, e)
            ent['ev'].set()
        else:
            ent['ev'].wait()
        if ent['err']:
            raise core.Inconclusive(ent['err'])
        return ent['obj']


def _compile_job(a):
    cache, src, flags = a
    return cache.obj(src, flags)


def _link_one(a):
    tmp, idx, v, objs = a
    d = os.path.join(tmp, 'v%02d' % idx)
    os.makedirs(d, exist_ok=True)
    b = core.Builder(d)
    return b.driver('c03', 'asan', ['c03_detect_stub.c', 'common/wrapalloc.c'], objs,
                    wraps=wraps_for(v['cpu']) + ['malloc', 'calloc', 'realloc', 'free', 'strdup'],
                    cpu=v['cpu'],
                    defs=['VH_WRAPALLOC'] + ['STUB_' + s.upper() for s in v['stubs']])


def build(ctx, variants):
    """Objects of every variant come from the repository sources compiled
    under that variant's CPUSUPPORT_* list; the driver (with the --wrap
    stubs) is compiled under the same list."""
    b0 = core.Builder(ctx.tmp)
    cache = ObjCache(os.path.join(ctx.tmp, 'objcache'))
    jobs, index = [], []
    libsrcs = SRCS + ['cpusupport/cpusupport_x86_%s.c' % f for f in DETECTORS]
    # the "self-test fails" variants run the executable of the variant with
    # the same CPUSUPPORT_* list and detectors (the failure is a run-time flag)
    allv, first = variants, {}
    for v in allv:
        first.setdefault((tuple(v['cpu']), tuple(v['stubs']), tuple(v.get('cdefs', ()))), v)
    variants = list(first.values())
    for vi, v in enumerate(variants):
        base = b0.base_flags('asan', v['cpu'])        # writes the config header
        gnu = [f for f in base if f != '-std=c99'] + ['-std=gnu99']
        for s in libsrcs:
            feat = s[len('cpusupport/cpusupport_x86_'):-2] if s.startswith('cpusupport/') else None
            if feat in v['stubs']:
                continue            # the substituted detector replaces this file
            src = os.path.join(core.REPO, s)
            if not os.path.exists(src):
                raise core.Inconclusive('source file missing: ' + src)
            jobs.append((cache, src, base + core.CPU_CFLAGS.get(s, []) +
                         ['-D' + d for d in v.get('cdefs', ())]))
            index.append(vi)
        for s in ('c03_accel.c', 'common/refaes.c', 'common/aes_oomhist.c'):
            jobs.append((cache, os.path.join(core.HARNESS, s), gnu))
            index.append(vi)
    objs = core.tmap(_compile_job, jobs, threads=core.NCPU)
    per = [[] for _ in variants]
    for vi, o in zip(index, objs):
        per[vi].append(o)
    exes = core.tmap(_link_one, [(ctx.tmp, i, v, per[i]) for i, v in enumerate(variants)],
                     threads=core.NCPU)
    for v, e in zip(variants, exes):
        v['exe'] = e
    for v in allv:
        v['exe'] = first[(tuple(v['cpu']), tuple(v['stubs']), tuple(v.get('cdefs', ())))]['exe']
    ctx.cov['build'] = {'translation_units_requested': cache.requests,
                        'distinct_after_preprocessing': cache.compiled,
                        'executables': len(variants)}
    return allv


# ---- workload -------------------------------------------------------------------
def pstr(parts):
    return ','.join(map(str, parts)) if parts else '-'


def alt_partition(rnd, n, thr, longmax):
    """Calls alternating below / at-or-above the threshold `thr`, so that one
    stream switches between the portable and the accelerated entry."""
    parts, left, short = [], n, rnd.random() < 0.5
    while left > 0:
        if short:
            c = rnd.randrange(0, thr)
        else:
            c = rnd.choice([thr, thr, thr + 1, rnd.randrange(thr, 2 * thr + 2),
                            rnd.randrange(thr, longmax)])
        short = not short
        c = min(c, left)
        parts.append(c)
        left -= c
    return parts or [0]


def rand_partition(rnd, n, thr):
    k = rnd.randrange(4)
    if k == 0:
        return [n]
    if k == 1:
        return alt_partition(rnd, n, thr, max(thr + 2, 8 * thr))
    if k == 2:
        return alt_partition(rnd, n, thr, max(thr + 2, min(n + 1, 600)))
    parts, left = [], n
    while left > 0:
        c = min(left, rnd.choice([0, 1, 3, 7, 8, 9, 15, 16, 17, 31, 32, 33, 63, 64, 65,
                                  rnd.randrange(1, left + 1)]))
        parts.append(c)
        left -= c
    return parts or [0]


def rand_nonce(rnd):
    return rnd.choice([0, M64, 1 << 63, 0xff00000000000000, rnd.getrandbits(64),
                       rnd.getrandbits(64)])


LONG_SHAPES = ['exact256', 'low-byte-not-smaller', 'one-wrap', 'two-wraps', 'portable-first',
               'mid-block', 'long-twice']


def subblock_calls(rnd, total):
    """Calls of 0..15 bytes (0-length calls included) that cover `total` bytes."""
    parts, left = [], total
    while left > 0:
        c = min(left, rnd.choice([0, 1, 2, 3, 5, 7, 8, 9, 11, 13, 15, 15, rnd.randrange(16)]))
        parts.append(c)
        left -= c
    return parts


def long_ctr_plan(rnd, shape):
    """-> (parts, index of the long call).  A stream that is already in use
    (its counter block holds a non-trivial counter), then ONE call that covers
    >= 256 whole blocks (the low counter byte wraps inside the call), then
    calls of < 16 bytes, 0-length calls and a tail: the bulk code hands its
    counter over to the portable block code, and (before the long call, and
    again behind the sub-block calls) the portable code to the bulk code."""
    r = rnd.randrange
    if shape == 'exact256':             # low byte comes back to the same value
        pre, nb, frac = rnd.choice([[32], [16], [16, 16, 16], [5, 11, 16]]), 256, 0
    elif shape == 'low-byte-not-smaller':
        pre, nb, frac = rnd.choice([[32], [17, 15], [16]]), 256 + r(0, 200), rnd.choice([0, 5, r(16)])
    elif shape == 'one-wrap':
        pre = rnd.choice([[16], [32], [3, 13, 16], [48], [64, 0, 16], [r(16, 100)]])
        nb, frac = r(256, 512), r(16)
    elif shape == 'two-wraps':          # >= 512 whole blocks, up to 20000 bytes
        pre = rnd.choice([[16], [32, 16], [7, 9], [r(16, 400)]])
        nb, frac = r(512, 1249), r(16)
    elif shape == 'portable-first':     # several blocks made by sub-block calls first
        pre = subblock_calls(rnd, 16 * r(1, 5))
        nb, frac = r(256, 700), r(16)
    elif shape == 'mid-block':          # the long call starts and ends inside a block
        pre = subblock_calls(rnd, 16 * r(0, 3) + r(1, 16))
        nb, frac = r(256, 600), r(1, 16)
        frac += 16 - sum(pre) % 16      # completes the open block first
    else:                               # 'long-twice'
        pre = rnd.choice([[16], [32], [5, 11]])
        nb, frac = r(256, 400), r(16)
    parts = list(pre)
    at = len(parts)
    parts.append(16 * nb + frac)
    # portable code continues from the counter the bulk call left behind
    parts += subblock_calls(rnd, 16 * r(2, 6) + r(16))
    k = rnd.randrange(4)
    if shape == 'long-twice' or k == 0:
        parts.append(16 * r(256, 300) + r(16))              # portable -> bulk, long again
        parts += subblock_calls(rnd, 16 * r(1, 4) + r(16))
    elif k == 1:
        parts.append(r(16, 200))                            # portable -> bulk, short
        parts += subblock_calls(rnd, 16 * r(1, 3) + r(16))
    parts += [0, r(1, 40)]                                  # 0-length call and a tail
    return parts, at


def gen_cases(seed, tier, shard, nshards):
    rnd = random.Random(seed)
    scale = 1 if tier == 'quick' else 150
    cases = []

    def add(kind, line, expect, s, nt=True):
        cases.append({'kind': kind, 'line': line, 'expect': expect, 'sig': s, 'nt': nt})

    def sha_cases(n, al):
        m = rbytes(rnd, n)
        exp = hashlib.sha256(m).hexdigest()
        p = rand_partition(rnd, n, 64)
        add('sha256', 'H %d %s %s' % (al, core.hx(m), pstr(p)), exp, sig('H', n, al, len(p)))
        if rnd.random() < 0.4:
            add('sha256', 'B %d %s' % (al, core.hx(m)), exp, sig('B', n, al))

    def crc_case(n, al, style):
        m = rbytes(rnd, n)
        p = [n] if style == 'one' else (alt_partition(rnd, n, 8, 40) if style == 'alt'
                                        else rand_partition(rnd, n, 8))
        add('crc32c', 'C %d %s %s' % (al, core.hx(m), pstr(p)), crc_expected(m).hex(),
            sig('C', n, al, style, len(p)))

    def ctr_case(n, ali, alo, style, key=None):
        key = key or rbytes(rnd, rnd.choice([16, 32]))
        data = rbytes(rnd, n)
        nonce = rand_nonce(rnd)
        p = [n] if style == 'one' else (alt_partition(rnd, n, 16, 80) if style == 'alt'
                                        else rand_partition(rnd, n, 16))
        inpl = rnd.randrange(2)
        add('ctr', 'S %d %d %s %d %s %s %d' % (ali, alo, key.hex(), nonce, core.hx(data),
                                               pstr(p), inpl), '',
            sig('S', len(key), n, ali, alo, style, len(p), inpl))

    # CRC32C: every (length 0..40, alignment 0..15) in one call and in calls
    # that alternate below / above the 8-byte threshold; sharded by alignment
    for al in range(16):
        if al % nshards != shard:
            continue
        for n in range(0, 41):
            crc_case(n, al, 'one')
            crc_case(n, al, 'alt')
    for _ in range(30 * scale):
        crc_case(rnd.choice([rnd.randrange(0, 100), rnd.randrange(0, 700), rnd.randrange(0, 3000)]),
                 rnd.randrange(16), rnd.choice(['alt', 'rand', 'one']))
    # SHA-256: lengths around the 64-byte blocks, all alignments
    for n in range(0, 200):
        if n % nshards != shard:
            continue
        sha_cases(n, rnd.randrange(16))
        sha_cases(64 * rnd.randrange(1, 8) + (n % 64), (n + shard) % 16)
    for _ in range(15 * scale):
        sha_cases(rnd.choice([rnd.randrange(0, 300), rnd.randrange(0, 5000)]), rnd.randrange(16))
    # HMAC-SHA256
    for _ in range(16 * scale):
        kl = rnd.choice([0, 1, 31, 32, 33, 63, 64, 65, 100, rnd.randrange(0, 200)])
        ml = rnd.choice([0, 1, 55, 56, 63, 64, 65, 119, 120, 128, rnd.randrange(0, 700)])
        k, m = rbytes(rnd, kl), rbytes(rnd, ml)
        al = rnd.randrange(16)
        exp = hmac.new(k, m, hashlib.sha256).hexdigest()
        if rnd.random() < 0.3:
            add('hmac', 'N %d %s %s' % (al, core.hx(k), core.hx(m)), exp, sig('N', kl, ml, al))
        else:
            p = rand_partition(rnd, ml, 64)
            add('hmac', 'M %d %s %s %s' % (al, core.hx(k), core.hx(m), pstr(p)), exp,
                sig('M', kl, ml, al, len(p)))
    # PBKDF2-HMAC-SHA256 (its own call site of the compression function):
    # password lengths on both sides of the 64-byte block, several output blocks
    for _ in range(3 * scale if tier != 'quick' else 3):
        pl = rnd.choice([0, 8, 63, 64, 65, 66, 100, 128, 200])
        pw, salt = rbytes(rnd, pl), rbytes(rnd, rnd.randrange(0, 80))
        c = rnd.choice([1, 2, 3, 7])
        dk = rnd.choice([1, 20, 32, 33, 64, 65, 100])
        add('hmac', 'P %d %s %s %d %d' % (rnd.randrange(16), core.hx(pw), core.hx(salt), c, dk),
            hashlib.pbkdf2_hmac('sha256', pw, salt, c, dk).hex(), sig('P', pl, len(salt), c, dk))
    # AES blocks: alignments 0..15, both key sizes, in place or not
    for al in range(16):
        if al % nshards != shard and tier == 'quick':
            continue
        for klen in (16, 32):
            key = rnd.choice([rbytes(rnd, klen)] * 4 + [bytes(klen), b'\xff' * klen])
            nb = rnd.randrange(1, 6)
            blocks = rbytes(rnd, 16 * nb)
            inpl = rnd.randrange(2)
            add('aes', 'K %d %s %s %d' % (al, key.hex(), blocks.hex(), inpl), '',
                sig('K', klen, al, nb, inpl))
    for _ in range(10 * scale):
        klen = rnd.choice([16, 32])
        add('aes', 'K %d %s %s %d' % (rnd.randrange(16), rbytes(rnd, klen).hex(),
                                      rbytes(rnd, 16 * rnd.randrange(1, 9)).hex(),
                                      rnd.randrange(2)), '', sig('K', klen, len(cases) % 64))
    # AES-CTR: every length 0..40 (around the 16-byte threshold); sharded
    for n in range(0, 41):
        if n % nshards != shard and tier == 'quick':
            continue
        ctr_case(n, rnd.randrange(16), rnd.randrange(16), 'one')
        ctr_case(n, rnd.randrange(16), rnd.randrange(16), 'alt')
    for al in range(16):
        if al % nshards != shard and tier == 'quick':
            continue
        ctr_case(rnd.randrange(16, 120), al, (al * 11 + 5) % 16, 'alt')
        ctr_case(rnd.randrange(16, 120), (al * 11 + 5) % 16, al, 'rand')
    for _ in range(25 * scale):
        ctr_case(rnd.choice([rnd.randrange(0, 200), rnd.randrange(0, 1500)]), rnd.randrange(16),
                 rnd.randrange(16), rnd.choice(['alt', 'rand', 'rand', 'one']))
    # streams beyond 256 blocks: the counter carries inside a bulk call, at a
    # call boundary, and inside a run of short calls
    for _ in range(3 * scale if tier != 'quick' else 3):
        n = 4096 + rnd.randrange(-40, 400)
        key = rbytes(rnd, rnd.choice([16, 32]))
        data = rbytes(rnd, n)
        nonce = rand_nonce(rnd)
        cut = rnd.choice([4096, 4096 - 16, 4096 + 16, 4095, 4097, rnd.randrange(3900, 4200)])
        cut = max(0, min(cut, n))
        plans = [[n], [cut, n - cut],
                 [cut - min(cut, 100)] + alt_partition(rnd, n - (cut - min(cut, 100)), 16, 60)]
        for p in plans:
            inpl = rnd.randrange(2)
            add('ctr', 'S %d %d %s %d %s %s %d' % (rnd.randrange(16), rnd.randrange(16), key.hex(),
                                                   nonce, core.hx(data), pstr(p), inpl), '',
                sig('S256', len(key), n, len(p), cut))
    # streams already in use with ONE call of >= 256 whole blocks (4 KiB ..
    # 20000 bytes), followed by sub-block calls, 0-length calls and a tail
    shapes = LONG_SHAPES if tier == 'quick' else LONG_SHAPES * 12
    for si, shape in enumerate(shapes):
        p, at = long_ctr_plan(rnd, shape)
        n = sum(p)
        key = rbytes(rnd, rnd.choice([16, 32]))
        data = rbytes(rnd, n)
        nonce = rand_nonce(rnd)
        inpl = rnd.randrange(2)
        add('ctr', 'S %d %d %s %d %s %s %d' % (rnd.randrange(16), rnd.randrange(16), key.hex(),
                                               nonce, core.hx(data), pstr(p), inpl), '',
            sig('SL', shape, len(key), at, p[at] >> 12, sum(p[:at]) % 16, p[at] % 16,
                len(p) - at, inpl))
    # one stream per run in which a single bulk call crosses block 65536 (the
    # counter carries out of its second byte inside an accelerated call), after
    # a first bulk call of just under 1 MiB, followed by sub-block calls
    if shard == 0:
        pre = [(65536 - 100) * 16 - 5, 5]
        p = pre + [200 * 16 + 7] + subblock_calls(rnd, 16 * 3 + 5) + [4096 + 3, 0, 9]
        n = sum(p)
        key = rbytes(rnd, rnd.choice([16, 32]))
        data = rbytes(rnd, n)
        add('ctr', 'S %d %d %s %d %s %s %d' % (rnd.randrange(16), rnd.randrange(16), key.hex(),
                                               rand_nonce(rnd), core.hx(data), pstr(p), 0), '',
            sig('SX', 'cross-65536', len(key), n))
    # thorough tier: one single call of 2^32 + d bytes (>= 2^28 blocks inside
    # one accelerated call), then short calls on the same stream
    # (thorough tier: one single AES-CTR call of 2^32 + d bytes, then short
    # calls on the same stream - see aes_huge_case(); it runs as separate tasks,
    # one per distinct AES situation, beside the shards)
    # far-offset streams (verification hook crypto_aesctr_verif_seek): the
    # stream is moved to block 2^e - d, e in FAR_EXPS, d in FAR_DS, and the
    # calls then cross block 2^e as one bulk call / sub-block calls / bulk
    # call ending there + sub-block calls / sub-block calls ending there +
    # bulk call / cuts with 0-length calls; plus one call of 300..1300 whole
    # blocks across 2^e - 256 and 2^e.  This shard's share of the grid.
    frnd = random.Random(seed ^ 0xFA3)
    for i, item in enumerate(far_items(1 if tier == 'quick' else 6)):
        if i % nshards != shard:
            continue
        f = far_stream(frnd, item)
        key = rbytes(frnd, frnd.choice([16, 32]))
        data = rbytes(frnd, f['n'])
        inpl = frnd.randrange(2)
        ali, alo = frnd.randrange(16), frnd.randrange(16)
        add('ctr-far', 'F %d %d %s %d %d %s %s %d' % (ali, alo, key.hex(), rand_nonce(frnd),
                                                      f['start'], core.hx(data),
                                                      pstr(f['parts']), inpl), '',
            sig('F', f['exp'], f['d'], f['kind'], len(key), inpl, len(f['parts'])))
        cases[-1]['far'] = '2^%d-%d %s' % (f['exp'], f['d'], f['kind'])
    return cases


MINI = ['H 3 %s 5,64,1,70' % ('ab' * 140), 'C 1 %s 3,20,2,9' % ('cd' * 34),
        'K 0 %s %s 0' % ('01' * 16, '23' * 16), 'K 0 %s %s 0' % ('01' * 32, '23' * 16),
        'S 0 0 %s 5 %s 3,40,5,52 0' % ('45' * 16, '67' * 100)]


def impl_of(kind, expect):
    return expect['sha'] if kind in ('sha256', 'hmac') else \
        expect['crc'] if kind == 'crc32c' else expect['aes']


def situation_of(kind, expect):
    """Implementation that runs, plus the ones that were disabled at start-up
    because their self-test failed (for distinct counting only)."""
    fam = ('shani', 'sse2') if kind in ('sha256', 'hmac') else \
        ('sse42',) if kind == 'crc32c' else ('aesni',)
    failed = [f for f in expect.get('failed', ()) if f in fam]
    return impl_of(kind, expect) + ''.join(' after-failed-' + f for f in failed)


def short(s):
    return s if len(s) <= 80 else s[:64] + '...(%d hex digits)' % len(s)


def lib_part(ans):
    """The library's bytes in an answer (AES lines also carry the reference)."""
    return ans.split(' ', 1)[0]


def far_witness(c, t, vname):
    """Where a far-offset stream leaves the model (absolute block number)."""
    f = c['line'].split()
    start = int(f[5])
    label = c.get('far') or next(('near 2^%d' % e for e in FAR_EXPS if start <= (1 << e)), '?')
    fd = next((i for i in range(0, min(len(t[0]), len(t[1])), 2) if t[0][i:i + 2] != t[1][i:i + 2]),
              -2) // 2
    return ('variant %s: stream moved to block %d (%s) with crypto_aesctr_verif_seek, calls %s: '
            'output differs from the AES-CTR model at data offset %d = block %d: library ...%s, '
            'model ...%s' % (vname, start, label, f[7][:80], fd, start + fd // 16,
                             t[0][2 * fd:2 * fd + 32], t[1][2 * fd:2 * fd + 32]))


def judge_for(variant, base, diffs, zbox, farbox=None):
    """Judge of one variant.  `base` (idx -> library answer) is filled by the
    first variant and compared by the later ones; disagreements go to
    `diffs` (idx -> {answer: [variant names]})."""
    exp = variant['expect']
    first = not base

    def judge(c, ans):
        kind = c['kind']
        if kind == 'counters':
            zbox.append(ans)
            return None
        la = lib_part(ans)
        if kind == 'ctr-far' and farbox is not None:
            farbox[0] += 1
        if first:
            base[c['idx']] = (la, variant['name'])
        else:
            b = base.get(c['idx'])
            if b is None:
                base[c['idx']] = (la, variant['name'])
            elif b[0] != la:
                d = diffs.setdefault(c['idx'], {b[0]: [b[1]]})
                d.setdefault(la, []).append(variant['name'])
            elif c['idx'] in diffs:
                diffs[c['idx']][la].append(variant['name'])
        impl = impl_of(kind, exp)
        if kind in ('aes', 'ctr', 'ctr-far'):
            t = ans.split()
            if len(t) != 2:
                return ('oracle:%s:%s' % (kind, impl), 'unparsable answer %r' % ans[:200])
            if t[0] != t[1]:
                if kind == 'ctr-far':
                    return ('oracle:%s:%s' % (kind, impl), far_witness(c, t, variant['name']))
                return ('oracle:%s:%s' % (kind, impl), 'variant %s: library %s, FIPS-197 reference %s'
                        % (variant['name'], short(t[0]), short(t[1])))
            return None
        if ans != c['expect']:
            return ('oracle:%s:%s' % (kind, impl), 'variant %s: got %s, specified value %s'
                    % (variant['name'], short(ans), c['expect']))
        return None
    return judge


def parse_z(ans):
    d = {}
    for t in ans.split()[1:]:
        k, _, v = t.partition('=')
        d[k] = v
    return d


def run_variants(variants, cases, timeout=1200):
    """Run the same lines through every variant.  -> shard result."""
    res = {'evals': 0, 'sigs': set(), 'alarms': [], 'counters': {}, 'disabled': [],
           'far': [c['far'] for c in cases if 'far' in c], 'far_evals': 0,
           'samples': [c['line'][:200] for c in cases if len(c['line']) > 60][7::97][:3]}
    base, diffs = {}, {}
    for v in variants:
        zbox = []
        farbox = [0]
        mine = []
        for i, c in enumerate(cases):
            d = dict(c)
            d['idx'] = i
            d['sig'] = sig(situation_of(c['kind'], v['expect']), c['sig'])
            d['meta'] = {'variant': v['name']}
            mine.append(d)
        mine.append({'kind': 'counters', 'line': 'Z', 'expect': '', 'sig': 0, 'nt': False,
                     'idx': len(cases), 'meta': {'variant': v['name']}})
        r = core.line_shard(v['exe'], mine, judge=judge_for(v, base, diffs, zbox, farbox), timeout=timeout,
                            args=v.get('args', ()))
        res['evals'] += r['evals'] - len(zbox)
        res['far_evals'] += farbox[0]
        res['sigs'] |= r['sigs']
        res['alarms'] += r['alarms']
        # a process that died (sanitizer report, assert) after it had called a
        # disabled implementation says so in the last line of its stderr
        for (k, case, w) in r['alarms']:
            m = MARKER.search(w if isinstance(w, str) else '')
            if not m:
                continue
            warned = m.group(2).split(',')
            for tok in m.group(1).split():
                impl, fn = tok.split(':')
                if impl in v.get('fails', ()) and HWNAME[impl] in warned:
                    res['alarms'].append((
                        'fallback-inconsistent:' + impl, case,
                        'variant %s: the library printed "Disabling %s due to failed self-test" '
                        'and afterwards still called %s; the process then died with %s'
                        % (v['name'], HWNAME[impl], fn, k)))
        cnt = res['counters'].setdefault(v['name'], {'procs': 0, 'aligns': 0, 'intr': set()})
        for z in zbox:
            d = parse_z(z)
            cnt['procs'] += 1
            for k in COUNTERS:
                cnt[k] = cnt.get(k, 0) + int(d.get(k, 0))
            cnt['aligns'] |= int(d.get('sse42_aligns', 0))
            cnt['intr'].add(d.get('intr'))
            if d.get('disabled', '-') != '-':
                res['disabled'].append((v['name'], d['disabled']))
                cnt.setdefault('disabled', set()).update(d['disabled'].split(','))
    # line by line across variants (library output only)
    for i in sorted(diffs):
        c = cases[i]
        # variants that agreed silently with the first answer are not listed
        g = sorted(diffs[i].items(), key=lambda kv: -len(kv[1]))
        w = '; '.join('%s from %s' % (short(a), ', '.join(names[:6]) +
                                      (' (+%d more)' % (len(names) - 6) if len(names) > 6 else ''))
                      for a, names in g[:4])
        res['alarms'].append(('variant-diff:' + c['kind'],
                              {'line': c['line'], 'kind': c['kind'], 'expect': c['expect'],
                               'meta': {'variant': g[-1][1][0]}},
                              'variants disagree: ' + w))
    # answers to the single calls of 2^32+d bytes (`W` lines), for the
    # comparison across the variants that ran them in separate tasks
    res['huge_answers'] = [(cases[i]['line'], base[i][0], base[i][1]) for i in sorted(base)
                           if i < len(cases) and cases[i]['line'].startswith(('W ', 'G '))]
    return res


def _shard(a):
    variants, seed, tier, i, n = a
    return run_variants(variants, gen_cases(seed, tier, i, n))


# ---- one single Update call of 2^32 + d bytes (CRC32C; thorough: also SHA-256) ----
def huge_cases(seed, tier):
    """-> (crc cases, sha cases).  The message starts <al> bytes into a region in
    which one 2 MiB memory file (a random 4 KiB block repeated) is mapped 2049
    times; expected values: the CRC algebra evaluated on the periodic structure
    (vlib/c01.py crc_expected_periodic), hashlib fed the same periodic bytes."""
    rnd = random.Random(seed ^ 0x4616)
    blk = rbytes(rnd, 4096)
    al = rnd.randrange(16)
    d = rnd.choice([rnd.randrange(1, 64), rnd.randrange(1, 3000), rnd.randrange(1, 1 << 20)])

    def case(alg, mode, exp):
        return {'kind': alg, 'line': 'W %d %s %s %d %s' % (al, alg, mode, d, blk.hex()),
                'expect': exp, 'sig': sig('W', alg, mode), 'nt': True}
    exp = huge_value('crc32c', blk, al, d)
    crc = [case('crc32c', 'one', exp), case('crc32c', 'gib', exp)]
    sha = [case('sha256', 'one', huge_value('sha256', blk, al, d))] if tier != 'quick' else []
    return crc, sha


def aes_huge_case(seed):
    """One crypto_aesctr_stream call of 2^32 + d bytes (>= 2^28 blocks inside one
    accelerated call), then calls of 7, 16 and 77 bytes on the same stream; the
    driver answers the last 4096 bytes of the big call and the 100 bytes after
    it, library and reference."""
    rnd = random.Random(seed ^ 0xAE5)
    key = rbytes(rnd, 32)
    extra = 16 * rnd.randrange(1, 40) + rnd.randrange(16)
    return {'kind': 'ctr', 'line': 'G 0 %s %d %d' % (key.hex(), rand_nonce(rnd), extra), 'expect': '',
            'sig': sig('G', 'one-call-4GiB', extra), 'nt': True}


def aes_huge_plan(variants):
    """One variant per distinct AES situation (path selected, self-test made to fail)."""
    seen, out = set(), []
    for v in variants:
        k = (v['expect']['aes'], tuple(f for f in v['fails'] if 'aes' in f))
        if k not in seen:
            seen.add(k)
            out.append(v['name'])
    return out


def huge_plan(variants, tier):
    """-> [(variant name, CRC32C one call, CRC32C 2^30-byte calls, SHA-256 one call)].
    Quick: one variant per distinct CRC32C situation (SSE4.2 64-bit, SSE4.2
    32-bit, portable, portable after a failed SSE4.2 self-test), the pieces
    control on the SSE4.2 variants and on the first portable one; thorough:
    every variant runs both CRC32C lines, and SHA-256 runs on one variant per
    distinct SHA-256 situation (path selected, self-tests made to fail)."""
    def crc_key(v):
        return (v['expect']['crc'], 'sse42' in v['fails'])

    def sha_key(v):
        return (v['expect']['sha'], tuple(f for f in v['fails'] if f in ('shani', 'sse2')))
    seen_c, seen_s, plan, soft_gib = set(), set(), [], False
    for v in variants:
        one = tier != 'quick' or crc_key(v) not in seen_c
        gib = one and (tier != 'quick' or v['expect']['crc'] != 'soft' or not soft_gib)
        s = tier != 'quick' and sha_key(v) not in seen_s
        seen_c.add(crc_key(v))
        seen_s.add(sha_key(v))
        if gib and v['expect']['crc'] == 'soft':
            soft_gib = True
        if one or s:
            plan.append((v['name'], one, gib, s))
    return plan


def _huge(a):
    variant, cases = a
    return run_variants([variant], cases, timeout=3600)


def huge_finish(ctx, hres):
    """Across the tasks: every variant's answer to the same line must be the same."""
    by_line = {}
    for r in hres:
        for line, ans, vname in r['huge_answers']:
            by_line.setdefault(line, {}).setdefault(ans, []).append(vname)
    for line, groups in by_line.items():
        t = line.split()
        if t[0] == 'G':         # the AES-CTR call: ['G', al, key, nonce, extra]
            t = ['W', t[1], 'aesctr', 'one', t[4]]
        ctx.count('single_call_2^32_%s_%s_answers' % (t[2], t[3]), sum(map(len, groups.values())))
        if len(groups) > 1:
            g = sorted(groups.items(), key=lambda kv: -len(kv[1]))
            ctx.alarm('variant-diff:%s-huge' % t[2],
                      {'line': line, 'kind': t[2], 'expect': '', 'meta': {'variant': g[-1][1][0]}},
                      'variants disagree on %s bytes in %s: ' % ('2^32+' + t[4], 'ONE call' if t[3] == 'one'
                                                                 else 'calls of 2^30 bytes') +
                      '; '.join('%s from %s' % (a, ', '.join(n[:8])) for a, n in g))
    ctx.count('single_call_2^32_variants', len({n for g in by_line.values() for ns in g.values() for n in ns}))
    if not by_line and not ctx.violations and not ctx.known_hits:
        ctx.note_inconclusive('no single call of 2^32+d bytes was answered')


# ---- allocation-failure histories of the AES interface, one fresh process each ----
def oom_case(vname, spec, k, seed):
    return {'kind': 'oomhist', 'line': 'oomhist %d %s %d' % (k, spec, seed), 'expect': '',
            'sig': sig('O', vname, spec, k), 'nt': k > 0,
            'meta': {'variant': vname, 'oomhist': [k, spec, seed]}}


def oom_judge_for(v):
    impl = v['expect']['aes']

    def judge(c, ans):
        k, spec, _ = c['meta']['oomhist']
        m = OOM_ANS.match(ans)
        what = 'variant %s, history %s in a fresh process, allocation attempt %d of the library ' \
            'fails once' % (v['name'], spec, k)
        if not m:
            return ('oracle:oomhist:' + impl, '%s: unparsable answer %r' % (what, ans[:200]))
        z = parse_z(ans[ans.index(' Z '):].strip()) if ' Z ' in ans else {}
        if int(z.get('after_aesni', 0)) and 'HW_X86_AESNI' in z.get('disabled', ''):
            return ('fallback-inconsistent:aesni',
                    '%s: the library printed "Disabling HW_X86_AESNI due to failed self-test" '
                    '(the self-test could not allocate) and afterwards called AES-NI entry points '
                    '%s times (kx=%s blk=%s ctr=%s; OpenSSL keys=%s): the choice is made once per '
                    'process, keys of the two implementations have different formats; events: %s'
                    % (what, z['after_aesni'], z.get('aesni_kx'), z.get('aesni_blk'),
                       z.get('aesni_ctr'), z.get('ossl_key'), m.group(4)[:400]))
        bad = [t for t in m.group(4).split(',') if 'BAD' in t or 'SPURIOUS' in t]
        if bad or int(m.group(3)):
            return ('oracle:oomhist:' + impl, '%s: %s (step+key=BAD@offset:library:refaes; '
                    'events: %s)' % (what, ' '.join(bad)[:400], m.group(4)[:500]))
        return None
    return judge


def run_oom(a):
    """All processes of one (variant, history): k = 0 counts the attempts, then
    one process per failing attempt.  -> shard-like result."""
    v, spec, seed = a
    res = {'evals': 0, 'sigs': set(), 'alarms': [], 'harness': [], 'oom': {}}
    box = {}
    judge = oom_judge_for(v)

    def one(k):
        c = oom_case(v['name'], spec, k, seed)
        box.clear()

        def j(case, ans):
            box['ans'] = ans
            return judge(case, ans)

        r = core.line_shard(v['exe'], [c], judge=j, timeout=300,
                            args=['oomhist', str(k), spec, str(seed)])
        res['evals'] += r['evals']
        res['sigs'] |= r['sigs']
        res['alarms'] += r['alarms']
        # died (sanitizer report, assert) after an AES-NI call that followed the warning
        for (key, case, w) in r['alarms']:
            mm = MARKER.search(w if isinstance(w, str) else '')
            if mm and 'HW_X86_AESNI' in mm.group(2).split(','):
                res['alarms'].append((
                    'fallback-inconsistent:aesni', case,
                    'variant %s, history %s, allocation attempt %d fails once: after "Disabling '
                    'HW_X86_AESNI due to failed self-test" the library still called%s; the process '
                    'then died with %s' % (v['name'], spec, k, mm.group(1), key)))
        ans = box.get('ans', '')
        m = OOM_ANS.match(ans)
        if not m:
            return None
        z = parse_z(ans[ans.index(' Z '):].strip()) if ' Z ' in ans else {}
        return (int(m.group(1)), int(m.group(2)), m.group(4).split(','), z)

    info = {'attempts': None, 'processes': 1, 'reported_null': 0, 'absorbed': 0,
            'selftest_warnings': 0, 'aesni_calls_after_warning': 0,
            'processes_on_aesni': 0, 'processes_on_openssl': 0}
    res['oom']['%s %s' % (v['name'], spec)] = info
    r0 = one(0)
    if r0 is None:
        return res
    n, nf, ev0, z0 = r0
    info['attempts'] = n
    if nf or n < 1 or any(t.endswith('=null') for t in ev0):
        res['harness'].append('oomhist %s %s: the fault-free run refused %d of %d attempts'
                              % (v['name'], spec, nf, n))
        return res
    # the fault-free history must run on the implementation the variant intends
    on_aesni = int(z0.get('aesni_blk', 0)) > 2 and int(z0.get('aesni_ctr', 0)) > 0
    if on_aesni != (v['expect']['aes'] == 'aesni') or \
            (not on_aesni and int(z0.get('ossl_enc', 0)) <= 2):
        res['harness'].append('oomhist %s %s: fault-free run used %s, intended %s'
                              % (v['name'], spec, z0, v['expect']['aes']))
    for k in range(1, n + 1):
        r = one(k)
        info['processes'] += 1
        if r is None:
            continue
        if r[1] != 1:
            res['harness'].append('oomhist %s %s: attempt %d of %d was not reached'
                                  % (v['name'], spec, k, n))
            continue
        nulls = sum(1 for t in r[2] if t.endswith('=null'))
        info['reported_null'] += nulls
        info['absorbed'] += (nulls == 0)
        z = r[3]
        info['selftest_warnings'] += ('HW_X86_AESNI' in z.get('disabled', ''))
        info['aesni_calls_after_warning'] += int(z.get('after_aesni', 0))
        if int(z.get('aesni_blk', 0)) > 2:
            info['processes_on_aesni'] += 1
        elif int(z.get('ossl_enc', 0)) > 2:
            info['processes_on_openssl'] += 1
    return res


def _task(t):
    return run_oom(t[1]) if t[0] == 'O' else _huge(t[1]) if t[0] == 'W' else _shard(t[1])


def check_paths(ctx, variants, counters):
    """The counters must show the intended implementation, and only it."""
    table = {}
    for v in variants:
        c = counters.get(v['name'])
        if not c or not c['procs']:
            ctx.note_inconclusive('variant %s produced no path counters' % v['name'])
            continue
        S = c['procs']
        e = v['expect']
        fails = v.get('fails', [])
        warned = c.get('disabled', set())
        bad = []
        # implementations whose self-test was made to fail: the only calls
        # allowed are the failed self-test calls themselves
        for f in fails:
            if not c.get('inj_' + f, 0):
                bad.append('no self-test call of %s was seen, no failure injected' % f)
            elif HWNAME[f] not in warned:
                bad.append('the library did not report the failed self-test of %s' % f)
            if c.get('after_' + f, 0):
                if HWNAME[f] in warned:
                    used = {'aesni_kx': c['aesni_kx'] - c.get('inj_aesni', 0),
                            'aesni_blk': c['aesni_blk'], 'aesni_ctr': c['aesni_ctr']} \
                        if f == 'aesni' else {f: c[f] - c.get('inj_' + f, 0)}
                    ctx.alarm('fallback-inconsistent:' + f,
                              {'line': 'Z', 'kind': 'counters', 'expect': '',
                               'meta': {'variant': v['name']}},
                              'variant %s: the library printed "Disabling %s due to failed '
                              'self-test" and afterwards still called %s %d times (%s); it must '
                              'fall back for every operation'
                              % (v['name'], HWNAME[f], ENTRY[f], c['after_' + f],
                                 ', '.join('%s=%d' % kv for kv in sorted(used.items()))))
                else:
                    bad.append('%s ran %d times after an injected self-test failure that the '
                               'library did not report' % (f, c['after_' + f]))
        for f in IMPLS:
            if f not in fails and (c.get('inj_' + f, 0) or c.get('after_' + f, 0)):
                bad.append('self-test failure of %s injected in a variant that must not' % f)
        want_shani = e['sha'] == 'shani'
        want_sse2 = e['sha'] == 'sse2'
        if want_shani and not c['shani'] > S:
            bad.append('SHA256_Transform_shani ran %d times (self-tests: %d)' % (c['shani'], S))
        if not want_shani and c['shani'] and 'shani' not in fails:
            bad.append('SHA256_Transform_shani ran %d times but must not' % c['shani'])
        if want_sse2 and not c['sse2'] > S:
            bad.append('SHA256_Transform_sse2 ran %d times (self-tests: %d)' % (c['sse2'], S))
        if not want_sse2 and c['sse2'] and 'sse2' not in fails:
            bad.append('SHA256_Transform_sse2 ran %d times but must not' % c['sse2'])
        if e['crc'] != 'soft' and not c['sse42'] > S:
            bad.append('CRC32C_Update_SSE42 ran %d times (self-tests: %d)' % (c['sse42'], S))
        if e['crc'] == 'soft' and c['sse42'] and 'sse42' not in fails:
            bad.append('CRC32C_Update_SSE42 ran %d times but must not' % c['sse42'])
        if e['aes'] == 'aesni':
            if not (c['aesni_kx'] > 2 * S and c['aesni_blk'] > 2 * S and c['aesni_ctr'] > 0):
                bad.append('AES-NI entry points ran kx=%d blk=%d ctr=%d times (self-tests: %d each)'
                           % (c['aesni_kx'], c['aesni_blk'], c['aesni_ctr'], 2 * S))
            if c['ossl_enc'] or c['ossl_key']:
                bad.append('OpenSSL AES ran (%d/%d) in an AES-NI variant' % (c['ossl_key'], c['ossl_enc']))
            if c['intr'] != {'1'}:
                bad.append('crypto_aes_can_use_intrinsics() = %s' % sorted(c['intr']))
        else:
            if (c['aesni_kx'] or c['aesni_blk'] or c['aesni_ctr']) and 'aesni' not in fails:
                bad.append('AES-NI entry points ran (%d/%d/%d) but must not'
                           % (c['aesni_kx'], c['aesni_blk'], c['aesni_ctr']))
            if not (c['ossl_enc'] > 2 * S and c['ossl_key'] > 2 * S):
                bad.append('OpenSSL AES ran only %d/%d times' % (c['ossl_key'], c['ossl_enc']))
            if c['intr'] != {'0'}:
                bad.append('crypto_aes_can_use_intrinsics() = %s' % sorted(c['intr']))
        if e['crc'] != 'soft' and c['aligns'] != 0xff:
            bad.append('CRC32C_Update_SSE42 saw pointer alignments mask 0x%02x, not all 8' % c['aligns'])
        table[v['name']] = {
            'intended': '%s/%s/%s' % (e['sha'], e['crc'], e['aes']),
            'calls': {k: c.get(k, 0) for k in COUNTERS if c.get(k, 0)},
            'processes': S}
        if fails:
            table[v['name']]['selftest_made_to_fail'] = fails
            if v.get('faults'):
                table[v['name']]['persistent_fault'] = v['faults']
            table[v['name']]['expected_warnings_seen'] = sorted(
                w for w in warned if IMPL_OF_HW.get(w) in fails)
            table[v['name']]['calls_after_disable'] = sum(c.get('after_' + f, 0) for f in fails)
        for b in bad:
            ctx.note_inconclusive('variant %s (intended %s): %s' % (v['name'], table[v['name']]['intended'], b))
    return table


def finish(ctx, variants, skipped, res):
    core.merge(ctx, res)
    byname = {v['name']: v for v in variants}
    counters = {}
    for r in res:
        for name, c in r['counters'].items():
            t = counters.setdefault(name, {'procs': 0, 'aligns': 0, 'intr': set()})
            for k, val in c.items():
                if k == 'aligns':
                    t[k] |= val
                elif k == 'intr':
                    t[k] |= val
                elif k == 'disabled':
                    t.setdefault(k, set()).update(val)
                else:
                    t[k] = t.get(k, 0) + val
        for name, which in r['disabled']:
            for w in which.split(','):
                if IMPL_OF_HW.get(w) in byname.get(name, {}).get('fails', ()):
                    ctx.count('expected_selftest_warnings')     # injected by the harness
                    continue
                ctx.alarm('selftest-disabled:' + w,
                          {'line': 'Z', 'kind': 'counters', 'expect': '', 'meta': {'variant': name}},
                          'variant %s printed "Disabling %s due to failed self-test": the '
                          'accelerated path disagrees with the portable one on the library\'s own '
                          'self-test vector' % (name, w))
    ctx.cov['variants'] = check_paths(ctx, variants, counters)
    ctx.cov['skipped_variants'] = skipped
    ctx.count('variants_run', len(variants))
    ctx.count('variants_selftest_fails', sum(1 for v in variants if v.get('fails')))
    ctx.count('variants_persistently_faulty_aesni', sum(1 for v in variants if v.get('faults')))
    for p in ('shani', 'sse2', 'soft'):
        ctx.count('variants_sha256_' + p, sum(1 for v in variants if v['expect']['sha'] == p))
    for p in ('sse42-64', 'sse42-32', 'soft'):
        ctx.count('variants_crc32c_' + p, sum(1 for v in variants if v['expect']['crc'] == p))
    for p in ('aesni', 'soft'):
        ctx.count('variants_aes_' + p, sum(1 for v in variants if v['expect']['aes'] == p))


def oom_finish(ctx, ov, oomres):
    core.merge(ctx, oomres)
    oom = {}
    for r in oomres:
        oom.update(r['oom'])
        for h in r['harness']:
            ctx.note_inconclusive('allocation-failure histories: ' + h)
    ctx.cov['alloc_failure_histories'] = {
        'steps': 'a/A key 1 from 16/32 bytes, b/B key 2, i crypto_aes_can_use_intrinsics, e blocks, '
                 's crypto_aesctr_init+stream calls+free, u crypto_aesctr_buf twice, l crypto_aesctr_'
                 'alloc+init2 per key+init2(NULL), x/y free key 1/2, m library blocks 8 mod 16',
        'variants': {v['name']: 'intended AES path ' + v['expect']['aes'] for v in ov},
        'per_variant_and_history': oom}
    ctx.count('oomhist_histories', len(oom))
    ctx.count('oomhist_processes', sum(i['processes'] for i in oom.values()))
    ctx.count('oomhist_failures_absorbed_by_selftest_fallback',
              sum(i['absorbed'] for i in oom.values()))
    ctx.count('oomhist_calls_that_reported_failure', sum(i['reported_null'] for i in oom.values()))
    ctx.count('oomhist_selftest_warnings', sum(i['selftest_warnings'] for i in oom.values()))
    missing = [k for k in ('%s %s' % (v['name'], spec) for v in ov for spec in OOM_SPECS)
               if k not in oom or not oom[k]['attempts'] or
               oom[k]['processes'] != oom[k]['attempts'] + 1]
    if (missing or not ov) and not ctx.violations and not ctx.known_hits:
        ctx.note_inconclusive('allocation-failure histories not fully executed: %r'
                              % (missing or 'no executable'))


def slim_variants(variants):
    return [{k: v[k] for k in ('name', 'exe', 'expect', 'fails', 'args')} for v in variants]


def run(ctx):
    assert crc_remainder(b'abc', crc_expected(b'abc')) == 0
    host = host_flags()
    variants, skipped = all_variants(host)
    if len(variants) < 2:
        raise core.Inconclusive('fewer than two variants can run on this host')
    build(ctx, variants)
    n = core.NCPU
    seeds = core.shard_seeds(ctx.seed, 'C03', n)
    sv = slim_variants(variants)
    # allocation-failure histories of the AES interface: one task per
    # (executable, history), every process fresh; they run beside the shards
    ov = [v for v in sv if v['name'] in OOM_VARIANTS]
    ooms = [('O', (v, spec, ctx.seed)) for v in ov for spec in OOM_SPECS]
    # one single Update call of 2^32+d bytes: one task per selected variant
    # (the longest tasks, so they start first)
    hcrc, hsha = huge_cases(ctx.seed, ctx.tier)
    svn = {v['name']: v for v in sv}
    huges = [('W', (svn[name], [c])) for name, one, gib, s in huge_plan(variants, ctx.tier)
             for c in hcrc[:1] * one + hcrc[1:] * gib + hsha * s]      # one process per line
    if ctx.tier != 'quick':
        gcase = aes_huge_case(ctx.seed)
        huges += [('W', (svn[name], [gcase])) for name in aes_huge_plan(variants)]
    allres = core.pmap(_task, huges + ooms + [('S', (sv, seeds[i], ctx.tier, i, n)) for i in range(n)])
    hres, allres = allres[:len(huges)], allres[len(huges):]
    oomres, res = allres[:len(ooms)], allres[len(ooms):]
    finish(ctx, variants, skipped, res + hres)
    huge_finish(ctx, hres)
    oom_finish(ctx, ov, oomres)
    far = [f for r in res for f in r['far']]
    per_b, per_k = {}, {}
    for f in far:
        b, k = f.split(' ')
        b = b.split('-')[0]
        per_b[b] = per_b.get(b, 0) + 1
        per_k[k] = per_k.get(k, 0) + 1
    far_evals = sum(r['far_evals'] for r in res)
    ctx.count('far_offset_streams', len(far))
    ctx.count('far_offset_stream_answers_all_variants', far_evals)
    ctx.count('far_offset_boundaries_covered', len(per_b))
    ctx.cov['far_offset'] = {
        'hook': 'crypto_aesctr_verif_seek (crypto/crypto_aesctr.c, LIBCPERCIVA_VERIF)',
        'streams_per_boundary': {b: per_b[b] for b in sorted(per_b, key=lambda x: int(x[2:]))},
        'streams_per_kind': per_k, 'start_offsets_d': FAR_DS,
        'excluded': 'block 2^64 (not named by the statement) and everything from block 2^60 on '
                    '(64-bit byte position of the library ends there)'}
    if len(per_b) != len(FAR_EXPS) or set(per_k) != set(FAR_KINDS + ['big-bulk']) or \
            (far_evals < len(far) * len(variants) and not ctx.violations and not ctx.known_hits):
        ctx.note_inconclusive('far-offset streams: %d answers for %d streams x %d variants, '
                              'boundaries %r, kinds %r' % (far_evals, len(far), len(variants),
                                                           sorted(per_b), sorted(per_k)))
    for r in res[:2]:
        for s in r['samples']:
            ctx.add_sample(s)
    ctx.cov['host_cpu_flags'] = sorted(HOSTFLAG[f] for f in HOSTFLAG if HOSTFLAG[f] in host)
    ctx.cov['rule'] = (
        'one seeded workload (SHA-256 streaming/one-shot, HMAC-SHA256, CRC32C, AES blocks, AES-CTR; '
        'buffer offsets 0..15 from a 16-byte boundary; every CRC length 0..40 x every alignment; '
        'every CTR length 0..40; SHA lengths around 64-byte blocks; calls alternating below/above '
        'the 8-byte (CRC), 16-byte (CTR), 64-byte (SHA) thresholds; CTR streams across block 256; '
        'CTR streams already in use (a few small calls first) that then contain ONE call of >= 256 '
        'whole blocks - 4096..20000 bytes, the low counter byte wraps once or twice inside the call, '
        'shapes ' + ', '.join(LONG_SHAPES) + ' - followed by calls of < 16 bytes, 0-length calls, '
        'sometimes a second bulk call, and a tail, so that the bulk code hands its counter to the '
        'portable block code and back; far-offset CTR streams: directly after crypto_aesctr_init '
        'the stream is moved with the LIBCPERCIVA_VERIF hook crypto_aesctr_verif_seek to block '
        '2^e - d for every e in {' + ', '.join(map(str, FAR_EXPS)) + '} and d in {' +
        ', '.join(map(str, FAR_DS)) + '} (d <= 2^e), and for each (e, d) the calls cross '
        'block 2^e in 5 ways - ONE bulk call with whole blocks on both sides, calls of 0..15 bytes, '
        'a bulk call ending exactly at 2^e then sub-block calls, sub-block calls ending exactly at '
        '2^e then a bulk call, cuts around 2^e with 0-length calls between - plus per e ONE call of '
        '300..1300 whole blocks that starts just before block 2^e - 256 and runs across 2^e - 256 '
        'and 2^e; in place or two buffers, offsets 0..15; expected bytes = refaes at the absolute '
        'block index) '
        'is executed by every variant; each answer is compared with hashlib/hmac, the CRC '
        'algebra and refaes, and with every other variant.  Variants: (a) every compile-time subset, '
        '(b) compiled in but the detector answers "absent", (c) no CPUID, (d) "self-test fails": '
        'compiled in, the CPU reports the feature, but the --wrap wrapper makes the library\'s own '
        'start-up self-test call of SHA256_Transform_shani / SHA256_Transform_sse2 / '
        'CRC32C_Update_SSE42 / crypto_aes_key_expand_aesni fail once (wrong state / wrong value / '
        'NULL); there the "Disabling HW_..." warning is expected, outputs must still equal the '
        'references and all other variants, and any later call of an entry point of the disabled '
        'implementation (AES-CTR included) is the violation fallback-inconsistent:<impl>.  In every '
        'other variant a "Disabling HW_..." warning is a violation.  (e) "faulty AES-NI": as (d), but '
        'the AES-NI implementation is persistently wrong for ONE key size - ' + ', '.join(AES_FAULTS) +
        ': every 32-byte / every 16-byte key expanded by crypto_aes_key_expand_aesni gets one wrong '
        'round-key bit, or every crypto_aes_encrypt_block_aesni under a 14-round key one wrong output '
        'bit, always, not only in the self-test; judged exactly like (d).  Allocation-failure '
        'histories (not part of the workload): for ' + str(len(OOM_SPECS)) + ' histories of the AES '
        'interface (' + ', '.join(OOM_SPECS) + '; steps in alloc_failure_histories) and the '
        'executables ' + ', '.join(OOM_VARIANTS) + ', a fault-free process counts the N allocation '
        'attempts of the library, then one FRESH process per k = 1..N runs the history with exactly '
        'the k-th attempt failing once; NULL only from a call in which an allocation was refused, '
        'every value produced (all keys, blocks, crypto_aesctr_stream/_buf, re-initialised stream '
        'objects) equals refaes, no crash, and no AES-NI entry point may be called after a '
        '"Disabling HW_X86_AESNI" warning (fallback-inconsistent:aesni).  '
        'Single calls of 2^32+d bytes (separate tasks beside the workload): a message of 2^32+d '
        'bytes (d random; start 0..15 bytes off a page boundary; one 2 MiB memory file - a random '
        '4 KiB block repeated - mapped 2049 times back to back, so no 4 GiB are allocated) is given '
        'to ONE CRC32C_Update call and, as control, in calls of 2^30 bytes; quick: by one variant '
        'per distinct CRC32C situation (SSE4.2 64-bit / SSE4.2 32-bit / portable / portable after '
        'a failed SSE4.2 self-test; the control by the SSE4.2 variants and one portable one), '
        'thorough: by every variant, plus ONE '
        'SHA256_Update call of the same bytes by one variant per distinct SHA-256 situation; '
        'every answer is compared with the exact value (the CRC algebra evaluated on the periodic '
        'structure; hashlib fed the same periodic bytes) and across the variants.  '
        'evaluations = answers judged, summed over variants; distinct = distinct (implementation '
        'that ran and implementations disabled by a failed self-test, operation, lengths, '
        'alignment, partition shape; allocation-failure history: variant, history, k >= 1); all '
        'cases count as non-trivial')
    ctx.cov['selftest_fails_variants'] = {
        v['name']: dict({'made_to_fail': v['fails'], 'must_select': '%s/%s/%s' % (
            v['expect']['sha'], v['expect']['crc'], v['expect']['aes'])},
            **({'persistent_fault': v['faults']} if v.get('faults') else {}))
        for v in variants if v.get('fails')}
    ctx.cov['sanitizers'] = 'gcc -fsanitize=address,undefined; buffers end at the end of their heap block'
    ctx.assumptions += [
        'ARM paths cannot execute on this host',
        'block counters above 2^16 are reached through the verification hook '
        'crypto_aesctr_verif_seek (crypto/crypto_aesctr.c under LIBCPERCIVA_VERIF: bytectr and the '
        'counter block as after n whole blocks), not by streaming; streams end before block 2^60 '
        '(64-bit byte position of the library); behaviour at block 2^64 is not stated and not exercised',
        'a failed self-test is simulated in the harness (first call of the wrapped entry point, '
        'only if it carries the library\'s self-test vector; "faulty AES-NI" variants: the --wrap '
        'wrapper damages the result of every call for one key size); the CPU itself is not faulty, so a '
        'library that ignored the failure without a warning would make those variants inconclusive, '
        'not violating',
        'the --wrap counters see calls made through the external symbol; '
        'crypto_aesctr_aesni.c reaches the AES-NI rounds through crypto_aes_encrypt_block_aesni_m128i '
        'directly, which is covered by the crypto_aesctr_aesni_stream counter']


def replay(ctx, case):
    host = host_flags()
    variants, _ = all_variants(host)
    build(ctx, variants)
    if case.get('kind') == 'oomhist':
        k, spec, seed = case['meta']['oomhist']
        vs = [v for v in slim_variants(variants) if v['name'] == case['meta'].get('variant')]
        if not vs:
            raise core.Inconclusive('variant %r cannot run here' % case['meta'].get('variant'))
        c = oom_case(vs[0]['name'], spec, k, seed)
        r = core.line_shard(vs[0]['exe'], [c], judge=oom_judge_for(vs[0]), timeout=300,
                            args=['oomhist', str(k), spec, str(seed)])
        for (key, cs, w) in list(r['alarms']):
            mm = MARKER.search(w if isinstance(w, str) else '')
            if mm and 'HW_X86_AESNI' in mm.group(2).split(','):
                r['alarms'].append(('fallback-inconsistent:aesni', cs,
                                    'after "Disabling HW_X86_AESNI" the library still called%s; '
                                    'the process then died with %s' % (mm.group(1), key)))
        core.merge(ctx, [r])
        return
    if case.get('kind') == 'counters':
        lines = MINI
        cases = []
        for ln in lines:
            op = ln[0]
            kind = {'H': 'sha256', 'C': 'crc32c', 'K': 'aes', 'S': 'ctr'}[op]
            t = ln.split()
            exp = ''
            if op == 'H':
                exp = hashlib.sha256(bytes.fromhex(t[2])).hexdigest()
            elif op == 'C':
                exp = crc_expected(bytes.fromhex(t[2])).hex()
            cases.append({'kind': kind, 'line': ln, 'expect': exp, 'sig': sig(ln), 'nt': True})
        vs = [v for v in variants if v['name'] == case.get('meta', {}).get('variant')] or variants
        r = run_variants(slim_variants(vs), cases)
    else:
        c = {'kind': case['kind'], 'line': case['line'], 'expect': case.get('expect', ''),
             'sig': 0, 'nt': True}
        r = run_variants(slim_variants(variants), [c])
    finish(ctx, variants, [], [r])

"""Generators for the HTTP client checks (C08 hostile streams, C09 well-formed
responses).  The generator builds every response from parts, so it knows the
status, header list and body a correct client must report."""
import random
import zlib

from . import core

TOKEN = 'abcdefghijklmnopqrstuvwxyzABCDEFGHIJKLMNOPQRSTUVWXYZ0123456789-_.!#$%&\'*+^`|~'
VALCH = ''.join(chr(c) for c in range(0x21, 0x7f)) + '  \t'
SIZE_MAX = 2 ** 64 - 1


def rbytes(rnd, n):
    return rnd.getrandbits(8 * n).to_bytes(n, 'little') if n else b''


def gen_headers(rnd, n, avoid_framing=True):
    """List of (raw line bytes, name, expected value)."""
    out = []
    for _ in range(n):
        name = ''.join(rnd.choice(TOKEN) for _ in range(rnd.randint(1, 20)))
        if avoid_framing and name in ('Content-Length', 'Transfer-Encoding'):
            name = 'X' + name
        kind = rnd.randrange(6)
        if kind == 0:
            val = ''
        elif kind == 1:
            val = ''.join(rnd.choice(VALCH) for _ in range(rnd.randint(1, 300)))
        elif kind == 2:
            val = 'a:b:c ' + ''.join(rnd.choice(VALCH) for _ in range(rnd.randint(0, 10))) + ':'
        else:
            val = ''.join(rnd.choice(VALCH) for _ in range(rnd.randint(1, 40)))
        if rnd.random() < 0.08 and val:
            # obs-text (bytes 0x80..0xff, allowed in field values): inside and,
            # above all, at the very end of the value
            hi = ''.join(chr(rnd.randrange(0x80, 0x100)) for _ in range(rnd.randint(1, 4)))
            val = rnd.choice([val + hi, val + hi, hi, val[:len(val) // 2] + hi + val[len(val) // 2:]])
        if rnd.random() < 0.06:
            # names that merely start like (or end like) a framing header, with
            # values a framing header could carry: they must not frame anything
            name = rnd.choice(['Content-Length-Hint', 'Content-Lengthy', 'Content-Length2', 'X-Content-Length',
                               'Transfer-Encoding-Offered', 'Transfer-Encodings', 'Transfer-Encoding2',
                               'Content-Lengt', 'Transfer-Encodin'])
            val = rnd.choice(['0', '5', '1', '999999', 'chunked', 'gzip, chunked', 'identity'])
        lead = rnd.choice(['', ' ', '  ', '\t', ' \t '])
        trail = rnd.choice(['', '', ' ', '\t', '  \t'])
        raw = (name + ':' + lead + val + trail).encode('latin-1')
        out.append((raw, name, val.strip(' \t')))
    return out


def chunk_encode(rnd, body, maxchunks=50, bigchunk=False, cuts=None):
    """cuts (list) receives payload-relative offsets of the delicate places:
    after each chunk-size line, and before / inside / after each chunk's
    trailing CRLF."""
    out = bytearray()
    pos = 0
    n = len(body)
    nch = 0
    while pos < n:
        left = n - pos
        if bigchunk and left > 1100000 and nch == 0:
            c = left if rnd.random() < 0.5 else 1100000
        elif nch >= maxchunks - 1:
            c = left
        else:
            c = min(left, rnd.choice([1, 1, 2, 3, 15, 16, 17, 100, 255, 256, 4094, 4095, 4096, 4097,
                                      rnd.randint(1, 20000)]))
        hx = ('%x' if rnd.random() < 0.5 else '%X') % c
        if rnd.random() < 0.2:
            hx = '0' * rnd.randint(1, 5) + hx
        ext = ''
        if rnd.random() < 0.2:
            ext = ';' + ''.join(rnd.choice('abcxyz') for _ in range(rnd.randint(1, 20)))
            if rnd.random() < 0.5:
                ext += '=' + ''.join(rnd.choice('abc123') for _ in range(rnd.randint(1, 20)))
        out += (hx + ext).encode() + b'\r\n'
        if cuts is not None and len(cuts) < 40:
            # right behind the size line, and one / two bytes into the data
            cuts += [len(out), len(out) + 1, len(out) + 2]
        out += body[pos:pos + c]
        if cuts is not None and len(cuts) < 40:
            cuts += [len(out), len(out) + 1, len(out) + 2]
        out += b'\r\n'
        pos += c
        nch += 1
    last = '0' * rnd.randint(1, 3)
    if rnd.random() < 0.2:
        last += ';last=1'
    out += last.encode() + b'\r\n'
    if rnd.random() < 0.3:
        out += b'X-Trailer: v\r\n'
    out += b'\r\n'
    return bytes(out)


def gen_request(rnd, head=False):
    method = 'HEAD' if head else rnd.choice(['GET', 'POST', 'PUT', 'DELETE', 'OPTIONS'])
    path = '/' + ''.join(rnd.choice('abcxyz0123456789/_-.%?=&') for _ in range(rnd.randint(0, 60)))
    nh = rnd.randint(0, 10)
    hdrs = []
    for _ in range(nh):
        name = ''.join(rnd.choice(TOKEN) for _ in range(rnd.randint(1, 16)))
        val = ''.join(rnd.choice(VALCH.replace('\t', '')) for _ in range(rnd.randint(0, 60))).strip()
        hdrs.append((name, val))
    body = b''
    if method in ('POST', 'PUT') and rnd.random() < 0.8:
        body = rbytes(rnd, rnd.choice([1, 10, 100, 5000, rnd.randint(1, 20000)]))
    elif rnd.random() < 0.25:
        # the caller may give any method a body (HEAD, GET, DELETE, ...)
        body = rbytes(rnd, rnd.choice([1, 12, 100, rnd.randint(1, 3000)]))
    return method, path, hdrs, body


def request_bytes(method, path, hdrs, body):
    s = '%s %s HTTP/1.1\r\n' % (method, path)
    for n, v in hdrs:
        s += '%s: %s\r\n' % (n, v)
    s += '\r\n'
    return s.encode('latin-1') + body


def gen_wellformed(rnd, tier):
    """Returns dict: resp bytes, expected (status, headers, body), request, limit."""
    head = rnd.random() < 0.08
    method, path, rhdrs, rbody = gen_request(rnd, head)
    status = rnd.choice([200, 200, 201, 204, 206, 301, 304, 400, 404, 500, 599,
                         rnd.randint(200, 599)])
    ver = rnd.choice(['1.1', '1.1', '1.0'])
    reason = rnd.choice(['OK', '', 'Not Found', 'Some Reason Phrase With Spaces', 'x'])
    nh = rnd.choice([0, 1, 2, 5, rnd.randint(0, 40)])
    hdrs = gen_headers(rnd, nh)
    bodiless = head or status in (204, 304)
    framing = rnd.choice(['clen', 'chunked', 'eof'])
    big = tier == 'thorough' and rnd.random() < 0.01
    if rnd.random() < 0.1:
        blen = 0
    elif big:
        blen = rnd.randint(1100000, 1300000)
    else:
        blen = rnd.choice([1, 2, 10, 100, 4095, 4096, 4097, rnd.randint(1, 3000), rnd.randint(1, 200000)
                           if rnd.random() < 0.2 else rnd.randint(1, 9000)])
    body = rbytes(rnd, blen)
    fr = []
    pcuts = []
    payload = b''
    if framing == 'clen' or (bodiless and rnd.random() < 0.5):
        cl = str(blen)
        if rnd.random() < 0.1:
            cl = '0' * rnd.randint(1, 3) + cl
        fr.append((('Content-Length: ' + cl).encode(), 'Content-Length', cl))
        payload = body
    elif framing == 'chunked':
        te = rnd.choice(['chunked', 'chunked', 'gzip, chunked'])
        fr.append((('Transfer-Encoding: ' + te).encode(), 'Transfer-Encoding', te))
        payload = chunk_encode(rnd, body, bigchunk=big, cuts=pcuts)
    else:
        payload = body
    # place framing header at a random position
    pos = rnd.randint(0, len(hdrs))
    allh = hdrs[:pos] + fr + hdrs[pos:]
    final = ('HTTP/%s %d %s\r\n' % (ver, status, reason)).encode() + \
        b''.join(h[0] + b'\r\n' for h in allh) + b'\r\n'
    interim = b''
    nint = rnd.choice([0, 0, 0, 1, 1, 2, 3])
    for _ in range(nint):
        ih = gen_headers(rnd, rnd.choice([0, 0, 1, 3, 30]))
        interim += ('HTTP/1.1 %d %s\r\n' % (rnd.choice([100, 100, 101, 102, 103, 199]),
                                            rnd.choice(['Continue', '', 'Early Hints']))).encode() + \
            b''.join(h[0] + b'\r\n' for h in ih) + b'\r\n'
    if bodiless:
        resp = interim + final
        exp_body = b''
    else:
        resp = interim + final + payload
        exp_body = body
    limit = rnd.choice([len(exp_body), len(exp_body), len(exp_body) + 1, len(exp_body) + 1000,
                        1 << 30, SIZE_MAX])
    return {
        'resp': resp, 'status': status,
        'headers': [(h[1], h[2]) for h in allh],
        'body': exp_body, 'limit': limit,
        'method': method, 'path': path, 'rhdrs': rhdrs, 'rbody': rbody,
        'framing': 'none' if bodiless else framing, 'ninterim': nint,
        'interim_len': len(interim), 'final_len': len(final),
        'cuts': sorted(set([len(interim), len(interim) + len(final)] +
                           [len(interim) + len(final) + x for x in pcuts])),
    }


def case_line(c, segmode, segseed, cancel_after=-1, outmode=0, endmode=1, connmode=0, chunks=None, early=0):
    parts = ['H', str(c['limit']), str(cancel_after), str(segmode), str(segseed), str(outmode),
             str(endmode), str(connmode), str(early), c['method'], core.hx(c['path'].encode('latin-1')),
             str(len(c['rhdrs']))]
    for n, v in c['rhdrs']:
        parts += [core.hx(n.encode('latin-1')), core.hx(v.encode('latin-1'))]
    parts += [core.hx(c['rbody']), core.hx(c['resp'])]
    if chunks:
        parts.append(','.join(map(str, chunks)))
    return ' '.join(parts)


def parse_answer(ans):
    d = {}
    for tok in ans.split():
        if '=' in tok:
            k, v = tok.split('=', 1)
            d[k] = v
    return d


def expected_headers_field(headers):
    if not headers:
        return '-'
    return ''.join('%s:%s,' % (core.hx(n.encode('latin-1')), core.hx(v.encode('latin-1')))
                   for n, v in headers)


# ---- hostile mutations (C08) ---------------------------------------------

WS = b' \t\r\n\x0b\x0c'


def mutate(rnd, c):
    """Return (bytes, tag) - a hostile variant of the well-formed response."""
    r = bytearray(c['resp'])
    m = rnd.randrange(19)
    if m == 0 and len(r):        # truncate
        return bytes(r[:rnd.randrange(len(r))]), 'truncate'
    if m == 1 and len(r):        # flip bytes
        for _ in range(rnd.randint(1, 4)):
            i = rnd.randrange(len(r))
            r[i] = rnd.randrange(256)
        return bytes(r), 'flip'
    if m == 2 and len(r):        # insert junk
        i = rnd.randrange(len(r))
        junk = rnd.choice([b'\r\n', b'\n', b'\r', b'\0', b'\r\n\r\n', b' ' * rnd.randint(1, 5000),
                           b'-1', b'ffffffffffffffffff', b'0x', b':', rbytes(rnd, rnd.randint(1, 20))])
        return bytes(r[:i] + junk + r[i:]), 'insert'
    if m == 3 and len(r) > 2:    # delete a piece
        i = rnd.randrange(len(r))
        j = min(len(r), i + rnd.randint(1, 6))
        return bytes(r[:i] + r[j:]), 'delete'
    if m == 4:                   # NUL in status line / headers
        i = rnd.randrange(min(len(r), max(1, c['interim_len'] + c['final_len'])))
        r[i] = 0
        return bytes(r), 'nul'
    head = b'HTTP/1.1 200 OK\r\n'
    if m == 5:                   # hostile Content-Length values
        v = rnd.choice([b'-1', b'-0', b'+5', b' 5', b'5 ', b'0x10', b'18446744073709551615',
                        b'18446744073709551616', b'99999999999999999999999', b'abc', b'', b'1e3',
                        b'4294967296', b'9223372036854775808'])
        body = rbytes(rnd, rnd.randint(0, 50))
        return head + b'Content-Length: ' + v + b'\r\n\r\n' + body, 'clen-hostile'
    if m == 6:                   # hostile chunk-size lines
        v = rnd.choice([b'', b' ', b'\t', b'-1', b'+3', b'0x3', b'0X', b'ffffffffffffffff',
                        b'fffffffffffffffe', b'10000000000000000', b'g', b' 3', b'3 ', b';ext',
                        b'3;' + b'e' * 300, b'00000000000000000000000003', b'\0', b'3\0'])
        body = rbytes(rnd, rnd.randint(0, 20))
        tail = rnd.choice([b'', b'\r\n', b'\r\n0\r\n\r\n', b'0\r\n\r\n'])
        return head + b'Transfer-Encoding: chunked\r\n\r\n' + v + b'\r\n' + body + tail, 'chunk-hostile'
    if m == 7:                   # whitespace after an empty chunk-size line up to a buffer boundary
        filler = rnd.choice([4096, 8192, 4096, 4095, 4097])
        pre = head + b'Transfer-Encoding: chunked\r\n'
        padname = b'X-Pad: '
        target = filler - rnd.choice([2, 3, 4, 10, 100, 1000])
        padlen = target - len(pre) - len(padname) - 4
        if padlen < 0:
            padlen = 0
        hdr = pre + padname + b'p' * padlen + b'\r\n\r\n'
        ws = bytes(rnd.choice(WS) for _ in range(max(0, filler - len(hdr) - 2)))
        # (also a valid size followed by nothing but whitespace up to the buffer end)
        line = rnd.choice([b'', b'', b'+', b'-', b'0x', b'3', b'10', b'a', b'fff', b'1000'])
        rest = rnd.choice([b'', b'5\r\nhello\r\n0\r\n\r\n', b'\r\n', rbytes(rnd, 30)])
        return hdr + line + b'\r\n' + ws[len(line):] + rest, 'chunk-ws-to-buffer-end'
    if m == 8:                   # header blocks around 64 KiB
        n = 65536 + rnd.choice([-2, -1, 0, 1, 2, 100])
        base = head
        pad = n - len(base) - len(b'X-Big: ') - 4
        return base + b'X-Big: ' + b'v' * pad + b'\r\n\r\n' + b'body', 'header-64k'
    if m == 9:                   # 1xx flood
        k = rnd.choice([10, 200, 2000])
        one = rnd.choice([b'HTTP/1.1 100 Continue\r\n\r\n', b'HTTP/1.1 100 \r\nX: y\r\n\r\n'])
        return one * k + c['resp'], '1xx-flood'
    if m == 10:                  # body sizes around the limit, all framings (limit set by caller)
        return bytes(r), 'limit-edge'
    if m == 11:                  # no CRLFCRLF at all / lone LFs
        return bytes(r).replace(b'\r\n', b'\n'), 'lf-only'
    if m == 12:                  # status line garbage
        v = rnd.choice([b'HTTP/1.1 99 x', b'HTTP/1.1 600 x', b'HTTP/2.0 200 x', b'HTTP/1.1 -200 x',
                        b'HTTP/1.1 2147483648 x', b'HTTP/1.99999999999 200 x', b'HTTP/1.1  200', b'',
                        b'ICY 200 OK', b'HTTP/1.1 200', b'HTTP/1.1 20x OK'])
        return v + b'\r\nContent-Length: 3\r\n\r\nabc', 'status-hostile'
    if m == 13:                  # chunk data shorter/longer than announced, bad trailing EOL
        body = rbytes(rnd, rnd.randint(0, 30))
        claim = max(0, len(body) + rnd.choice([-2, -1, 1, 2, 5]))
        return head + b'Transfer-Encoding: chunked\r\n\r\n' + (b'%x' % claim) + b'\r\n' + body + \
            rnd.choice([b'\r\n', b'XY', b'']) + b'0\r\n\r\n', 'chunk-length-lie'
    if m == 14:                  # both framings / duplicates
        return head + b'Content-Length: 5\r\nTransfer-Encoding: chunked\r\nContent-Length: 7\r\n\r\n' + \
            b'3\r\nabc\r\n0\r\n\r\n', 'both-framings'
    if m == 15:                  # a bare CR directly before a line's CRLF (CR CR LF)
        hend = min(len(r), c['interim_len'] + c['final_len'])
        eols = [i for i in range(0, max(0, hend - 1)) if r[i:i + 2] == b'\r\n']
        if not eols:
            return bytes(r), 'asis'
        picks = set()
        # favour the status lines and the last header line before each blank line
        fav = [eols[0]] + [e for e in eols if r[e + 2:e + 4] == b'\r\n'] + \
              [e for e in eols if e >= c['interim_len']][:1]
        for _ in range(rnd.randint(1, 3)):
            picks.add(rnd.choice(fav) if rnd.random() < 0.7 else rnd.choice(eols))
        for i in sorted(picks, reverse=True):
            r[i:i] = b'\r' * rnd.choice([1, 1, 1, 2])
        return bytes(r), 'cr-before-eol'
    if m == 16:                  # a valid chunk first, then a hostile chunk-size line
        n = rnd.choice([1, 2, 3, 4, 8, 16, 17, 40, rnd.randint(1, 300)])
        first = rbytes(rnd, n)
        v = rnd.choice([b'%x' % (SIZE_MAX - n + 1), b'%x' % (SIZE_MAX - n + 2), b'%x' % (SIZE_MAX - 2),
                        b'%x' % (SIZE_MAX - 3), b'%x' % (SIZE_MAX - n), b'%x' % (SIZE_MAX - n - 1),
                        b'%X' % (SIZE_MAX - rnd.randint(0, max(3, n + 3))),
                        b'ffffffffffffffff', b'fffffffffffffffe', b'7fffffffffffffff', b'8000000000000000',
                        b'10000000000000000', b'-1', b'-%x' % n, b'', b' ', b'+3', b'0x3', b'g', b'3 '])
        data = rbytes(rnd, rnd.choice([0, 1, 20, 6000, 6000, 20000]))
        tail = rnd.choice([b'', b'\r\n', b'\r\n0\r\n\r\n'])
        c['body'] = first        # the caller draws the body limit around this length
        return head + b'Transfer-Encoding: chunked\r\n\r\n' + (b'%x' % n) + b'\r\n' + first + b'\r\n' + \
            v + b'\r\n' + data + tail, 'chunk-hostile-later'
    if m == 17:                  # hostile framing values in an otherwise valid header block
        v = rnd.choice([b'010', b'0100', b'08', b'09', b'0x10', b'00000000000000000000000000000012',
                        b'12 ', b'\t12', b'12\t', b'1 2', b'12,12', b'12;q=1'])
        body = rbytes(rnd, rnd.choice([0, 7, 8, 12, 16, 18, 64, 100]))
        return head + b'Content-Length: ' + v + b'\r\n\r\n' + body, 'clen-odd'
    return bytes(r), 'asis'


def crc(b):
    return '%08x' % (zlib.crc32(b) & 0xffffffff)


def explicit_chunks(rnd, c, total=None):
    """Arrival chunk sizes for segmentation mode 3: cut at a few of the
    delicate offsets the generator knows about (+-1), so that e.g. the read
    boundary falls between the CR and LF that end a chunk."""
    total = len(c['resp']) if total is None else total
    cand = [x for x in c.get('cuts', []) if 0 < x < total]
    pts = set()
    for _ in range(rnd.randint(1, 4)):
        if cand and rnd.random() < 0.8:
            pts.add(max(1, min(total, rnd.choice(cand) + rnd.choice([0, 0, 0, -1, 1]))))
        elif total > 0:
            pts.add(rnd.randint(1, total))
    chunks, prev = [], 0
    for x in sorted(pts):
        if x > prev:
            chunks.append(x - prev)
            prev = x
    return chunks or [1]
